(* C01 — parsing never panics or hangs, whatever the bytes (model side).
   [Safe p]: on every input, [run p] is neither Panic (the model of every Rust panic site in the parsers:
   indexing / slicing by hand (Idx), try_into().expect() (PanicP), u16 subtraction (PanicP)) nor OutOfFuel
   (a many0/many1 loop that would not finish within its input: the loops are given the input itself as fuel,
   so OutOfFuel means non-termination by lack of progress).
   Debug/Display formatting and heap use are run-time behaviour of the compiled crate: they are measured on the
   implementation by the correspondence run (see DESIGN.md), supported here by the element-count bound. *)
From Coq Require Import String.
From TlsModel Require Import Bytes Nom Values DispatchTypes Handshake Record Extensions Kx Dtls Defrag
  NomGeneric SafeProofs PublicSafe NoPanicProofs DefragProofs PartialOps PartialOpsProofs.
From TlsModel Require Import Consts.

(* every public parser, by Rust name *)
Theorem C01_public_parsers_safe : Forall (fun e => match snd e with PE _ p => forall i, safe (run p i) end) public_parsers.
Proof. exact public_parsers_safe. Qed.
Theorem C01_public_parsers_with_argument_safe :
  Forall (fun e => forall n, match snd e n with PE _ p => forall i, safe (run p i) end) public_parsers_arg.
Proof. exact public_parsers_arg_safe. Qed.
Theorem C01_record_with_header_safe : forall hdr i, safe (run (parse_tls_record_with_header hdr) i).
Proof. exact with_header_safe. Qed.
Theorem C01_dtls_record_with_header_safe : forall hdr i, safe (run (parse_dtls_record_with_header hdr) i).
Proof. exact dtls_with_header_safe. Qed.
Theorem C01_content_and_signature_safe : forall T (f : P T) ext, (forall i, safe (run f i)) ->
  forall i, safe (run (parse_content_and_signature f ext) i).
Proof. exact content_and_signature_safe. Qed.

(* the debug assertion of the defragmenter is absent from the source read on this run ... *)
Theorem C01_no_debug_assert : DEFRAG_DEBUG_ASSERT = false.
Proof. exact (eq_refl false). Qed.
(* ... and without it no sequence of parse_record / parse_record_nocopy / reset calls, from any state, panics *)
Theorem C01_defragmenter_never_panics : forall ops s,
  Forall (fun e => match fst e with Some (_, r) => safe r | None => True end) (run_ops DEFRAG_DEBUG_ASSERT s ops).
Proof. rewrite C01_no_debug_assert. exact defrag_never_panics. Qed.

(* termination with progress: a repeated parser returns at most one element per consumed byte, so the Vec it
   fills is linear in the input *)
Theorem C01_many0_elements_bounded : forall A (p : P A) i r l, run (Many0 p) i = Ok r l -> lenN l + slen r <= slen i.
Proof. exact many0_count. Qed.
Theorem C01_many1_elements_bounded : forall A (p : P A) i r l, run (Many1 p) i = Ok r l -> lenN l + slen r <= slen i + 1.
Proof. exact many1_count. Qed.
(* the defragmentation buffer stays below 10 MiB on every history of records within the record-length cap *)
Theorem C01_defragmenter_buffer_bounded : forall dbg ops, Forall record_within_cap ops ->
  Forall (fun e => bounded (snd e)) (run_ops dbg d_init ops).
Proof. intros dbg ops. exact (buffer_bound dbg ops d_init init_bounded). Qed.

(* the partial operations of the current source (unwrap / expect / panicking macros / index and slice expressions /
   subtractions on lengths, outside test modules; regenerated inventory, T11) are among the sites the model
   represents by Idx / PanicP: a panic site the model does not know about breaks this obligation *)
Theorem C01_partial_ops_obligation : partial_ops_ok = true.
Proof. vm_compute. reflexivity. Qed.
Theorem C01_partial_ops_modelled : forall f fn k e, In (f, fn, k, e) partial_ops ->
  (count_ops f fn k <= allowed f fn k)%nat /\ (0 < allowed f fn k)%nat.
Proof. exact (partial_ops_modelled C01_partial_ops_obligation). Qed.

Print Assumptions C01_public_parsers_safe.
Print Assumptions C01_public_parsers_with_argument_safe.
Print Assumptions C01_record_with_header_safe.
Print Assumptions C01_dtls_record_with_header_safe.
Print Assumptions C01_content_and_signature_safe.
Print Assumptions C01_no_debug_assert.
Print Assumptions C01_defragmenter_never_panics.
Print Assumptions C01_many0_elements_bounded.
Print Assumptions C01_many1_elements_bounded.
Print Assumptions C01_defragmenter_buffer_bounded.
Print Assumptions C01_partial_ops_obligation.
Print Assumptions C01_partial_ops_modelled.
