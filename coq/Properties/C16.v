(* C16 — the multi-record parsers equal repeated single-record parsing. *)
From TlsModel Require Import Bytes Nom Values Record Dtls MultiRecordProofs.

Theorem C16_tls_many : forall i,
  run tls_parser_many i =
    match iterate (fun j => run parse_tls_plaintext j) (bytes i) i with
    | ([], _) => match run parse_tls_plaintext i with
                 | Incomplete _ => Err i KComplete | Err s k => Err s k | _ => Err i KComplete end
    | (recs, rem) => Ok rem recs
    end.
Proof. exact tls_many_is_iterate. Qed.
Theorem C16_dtls_many : forall i,
  run parse_dtls_plaintext_records i =
    match iterate (fun j => run parse_dtls_plaintext_record j) (bytes i) i with
    | ([], _) => match run parse_dtls_plaintext_record i with
                 | Incomplete _ => Err i KComplete | Err s k => Err s k | _ => Err i KComplete end
    | (recs, rem) => Ok rem recs
    end.
Proof. exact dtls_many_is_iterate. Qed.
Theorem C16_tls_fails_iff_first : forall i,
  (exists r v, run tls_parser_many i = Ok r v) <-> (exists r v, run parse_tls_plaintext i = Ok r v).
Proof. exact (many1_fails_iff parse_tls_plaintext progress_plaintext SafeProofs.Safe_plaintext). Qed.
Theorem C16_dtls_fails_iff_first : forall i,
  (exists r v, run parse_dtls_plaintext_records i = Ok r v) <-> (exists r v, run parse_dtls_plaintext_record i = Ok r v).
Proof. exact (many1_fails_iff parse_dtls_plaintext_record progress_dtls_plaintext SafeProofs.Safe_dplain). Qed.
Theorem C16_alias : forall i, run tls_parser i = run parse_tls_plaintext i.
Proof. exact tls_parser_alias. Qed.

Print Assumptions C16_tls_many.
Print Assumptions C16_dtls_many.
Print Assumptions C16_tls_fails_iff_first.
Print Assumptions C16_dtls_fails_iff_first.
Print Assumptions C16_alias.
