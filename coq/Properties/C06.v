(* C06 — the self-delimiting parsers are local and zero-copy.
   (a) append-stability: on an accepted input, appending any bytes leaves the value (and every slice in it,
       address included) unchanged and extends the remainder by exactly those bytes; a decided error stays
       an error of the same kind.  An Incomplete answer (the declared length is not there yet) is unconstrained.
   (b) the remainder is a suffix of the input (every parser of the combinator language).
   (c) provenance: every slice reachable from the returned value is a sub-slice of the input (same bytes at
       the same absolute offset) that ends at or before the start of the remainder: nothing is copied and
       nothing beyond the consumed bytes is referenced.
   (d) the record defragmenter: results of the fast path / parse_record_nocopy are slices of the caller's
       record, results after defragmentation are slices of the internal buffer. *)
From TlsModel Require Import Bytes Nom Values DispatchTypes Dispatch Handshake Record Extensions Kx Dtls Defrag
  NomGeneric ProvGeneric Slices LocalProofs ProvProofs.

Theorem C06_stable_plaintext : forall i x,
  (forall r v, run parse_tls_plaintext i = Ok r v -> run parse_tls_plaintext (sapp i x) = Ok (sapp r x) v) /\
  (forall s k, run parse_tls_plaintext i = Err s k -> exists s', run parse_tls_plaintext (sapp i x) = Err s' k).
Proof.
  intros i x. split; [intros r v; apply (stable_ok _ _ Stable_plaintext) |
    intros s k E; destruct (stable_err _ _ Stable_plaintext i x s k E) as [s' [E' _]]; exists s'; exact E'].
Qed.
Theorem C06_provenance_plaintext : forall i r v, run parse_tls_plaintext i = Ok r v ->
  forall s, In s (slices v) -> within i s /\ off s + slen s <= off r.
Proof. exact (prov_top _ _ Prov_plaintext). Qed.
Theorem C06_stable_encrypted : forall i x,
  (forall r v, run parse_tls_encrypted i = Ok r v -> run parse_tls_encrypted (sapp i x) = Ok (sapp r x) v) /\
  (forall s k, run parse_tls_encrypted i = Err s k -> exists s', run parse_tls_encrypted (sapp i x) = Err s' k).
Proof.
  intros i x. split; [intros r v; apply (stable_ok _ _ Stable_encrypted) |
    intros s k E; destruct (stable_err _ _ Stable_encrypted i x s k E) as [s' [E' _]]; exists s'; exact E'].
Qed.
Theorem C06_provenance_encrypted : forall i r v, run parse_tls_encrypted i = Ok r v ->
  forall s, In s (slices v) -> within i s /\ off s + slen s <= off r.
Proof. exact (prov_top _ _ Prov_encrypted). Qed.
Theorem C06_stable_raw_record : forall i x,
  (forall r v, run parse_tls_raw_record i = Ok r v -> run parse_tls_raw_record (sapp i x) = Ok (sapp r x) v) /\
  (forall s k, run parse_tls_raw_record i = Err s k -> exists s', run parse_tls_raw_record (sapp i x) = Err s' k).
Proof.
  intros i x. split; [intros r v; apply (stable_ok _ _ Stable_raw_record) |
    intros s k E; destruct (stable_err _ _ Stable_raw_record i x s k E) as [s' [E' _]]; exists s'; exact E'].
Qed.
Theorem C06_provenance_raw_record : forall i r v, run parse_tls_raw_record i = Ok r v ->
  forall s, In s (slices v) -> within i s /\ off s + slen s <= off r.
Proof. exact (prov_top _ _ Prov_raw). Qed.
Theorem C06_stable_handshake : forall i x,
  (forall r v, run parse_tls_message_handshake i = Ok r v -> run parse_tls_message_handshake (sapp i x) = Ok (sapp r x) v) /\
  (forall s k, run parse_tls_message_handshake i = Err s k -> exists s', run parse_tls_message_handshake (sapp i x) = Err s' k).
Proof.
  intros i x. split; [intros r v; apply (stable_ok _ _ Stable_handshake) |
    intros s k E; destruct (stable_err _ _ Stable_handshake i x s k E) as [s' [E' _]]; exists s'; exact E'].
Qed.
Theorem C06_provenance_handshake : forall i r v, run parse_tls_message_handshake i = Ok r v ->
  forall s, In s (slices v) -> within i s /\ off s + slen s <= off r.
Proof. exact (prov_top _ _ Prov_message_handshake). Qed.
Theorem C06_stable_extension : forall i x,
  (forall r v, run parse_tls_extension i = Ok r v -> run parse_tls_extension (sapp i x) = Ok (sapp r x) v) /\
  (forall s k, run parse_tls_extension i = Err s k -> exists s', run parse_tls_extension (sapp i x) = Err s' k).
Proof.
  intros i x. split; [intros r v; apply (stable_ok _ _ (Stable_dispatch_ext generic_table)) |
    intros s k E; destruct (stable_err _ _ (Stable_dispatch_ext generic_table) i x s k E) as [s' [E' _]]; exists s'; exact E'].
Qed.
Theorem C06_provenance_extension : forall i r v, run parse_tls_extension i = Ok r v ->
  forall s, In s (slices v) -> within i s /\ off s + slen s <= off r.
Proof. exact (prov_top _ _ Prov_ext). Qed.
Theorem C06_stable_client_hello_extension : forall i x,
  (forall r v, run parse_tls_client_hello_extension i = Ok r v -> run parse_tls_client_hello_extension (sapp i x) = Ok (sapp r x) v) /\
  (forall s k, run parse_tls_client_hello_extension i = Err s k -> exists s', run parse_tls_client_hello_extension (sapp i x) = Err s' k).
Proof.
  intros i x. split; [intros r v; apply (stable_ok _ _ (Stable_dispatch_ext client_table)) |
    intros s k E; destruct (stable_err _ _ (Stable_dispatch_ext client_table) i x s k E) as [s' [E' _]]; exists s'; exact E'].
Qed.
Theorem C06_provenance_client_hello_extension : forall i r v, run parse_tls_client_hello_extension i = Ok r v ->
  forall s, In s (slices v) -> within i s /\ off s + slen s <= off r.
Proof. exact (prov_top _ _ Prov_ch_ext). Qed.
Theorem C06_stable_server_hello_extension : forall i x,
  (forall r v, run parse_tls_server_hello_extension i = Ok r v -> run parse_tls_server_hello_extension (sapp i x) = Ok (sapp r x) v) /\
  (forall s k, run parse_tls_server_hello_extension i = Err s k -> exists s', run parse_tls_server_hello_extension (sapp i x) = Err s' k).
Proof.
  intros i x. split; [intros r v; apply (stable_ok _ _ (Stable_dispatch_ext server_table)) |
    intros s k E; destruct (stable_err _ _ (Stable_dispatch_ext server_table) i x s k E) as [s' [E' _]]; exists s'; exact E'].
Qed.
Theorem C06_provenance_server_hello_extension : forall i r v, run parse_tls_server_hello_extension i = Ok r v ->
  forall s, In s (slices v) -> within i s /\ off s + slen s <= off r.
Proof. exact (prov_top _ _ Prov_sh_ext). Qed.
Theorem C06_stable_dh : forall i x,
  (forall r v, run parse_dh_params i = Ok r v -> run parse_dh_params (sapp i x) = Ok (sapp r x) v) /\
  (forall s k, run parse_dh_params i = Err s k -> exists s', run parse_dh_params (sapp i x) = Err s' k).
Proof.
  intros i x. split; [intros r v; apply (stable_ok _ _ Stable_dh) |
    intros s k E; destruct (stable_err _ _ Stable_dh i x s k E) as [s' [E' _]]; exists s'; exact E'].
Qed.
Theorem C06_provenance_dh : forall i r v, run parse_dh_params i = Ok r v ->
  forall s, In s (slices v) -> within i s /\ off s + slen s <= off r.
Proof. exact (prov_top _ _ Prov_dh). Qed.
Theorem C06_stable_ec_parameters : forall i x,
  (forall r v, run parse_ec_parameters i = Ok r v -> run parse_ec_parameters (sapp i x) = Ok (sapp r x) v) /\
  (forall s k, run parse_ec_parameters i = Err s k -> exists s', run parse_ec_parameters (sapp i x) = Err s' k).
Proof.
  intros i x. split; [intros r v; apply (stable_ok _ _ Stable_ec_parameters) |
    intros s k E; destruct (stable_err _ _ Stable_ec_parameters i x s k E) as [s' [E' _]]; exists s'; exact E'].
Qed.
Theorem C06_provenance_ec_parameters : forall i r v, run parse_ec_parameters i = Ok r v ->
  forall s, In s (slices v) -> within i s /\ off s + slen s <= off r.
Proof. exact (prov_top _ _ Prov_ec_parameters). Qed.
Theorem C06_stable_ecdh : forall i x,
  (forall r v, run parse_ecdh_params i = Ok r v -> run parse_ecdh_params (sapp i x) = Ok (sapp r x) v) /\
  (forall s k, run parse_ecdh_params i = Err s k -> exists s', run parse_ecdh_params (sapp i x) = Err s' k).
Proof.
  intros i x. split; [intros r v; apply (stable_ok _ _ Stable_ecdh) |
    intros s k E; destruct (stable_err _ _ Stable_ecdh i x s k E) as [s' [E' _]]; exists s'; exact E'].
Qed.
Theorem C06_provenance_ecdh : forall i r v, run parse_ecdh_params i = Ok r v ->
  forall s, In s (slices v) -> within i s /\ off s + slen s <= off r.
Proof. exact (prov_top _ _ Prov_ecdh). Qed.
Theorem C06_stable_signed : forall i x,
  (forall r v, run parse_digitally_signed i = Ok r v -> run parse_digitally_signed (sapp i x) = Ok (sapp r x) v) /\
  (forall s k, run parse_digitally_signed i = Err s k -> exists s', run parse_digitally_signed (sapp i x) = Err s' k).
Proof.
  intros i x. split; [intros r v; apply (stable_ok _ _ Stable_signed) |
    intros s k E; destruct (stable_err _ _ Stable_signed i x s k E) as [s' [E' _]]; exists s'; exact E'].
Qed.
Theorem C06_provenance_signed : forall i r v, run parse_digitally_signed i = Ok r v ->
  forall s, In s (slices v) -> within i s /\ off s + slen s <= off r.
Proof. exact (prov_top _ _ Prov_ds). Qed.
Theorem C06_stable_signed_old : forall i x,
  (forall r v, run parse_digitally_signed_old i = Ok r v -> run parse_digitally_signed_old (sapp i x) = Ok (sapp r x) v) /\
  (forall s k, run parse_digitally_signed_old i = Err s k -> exists s', run parse_digitally_signed_old (sapp i x) = Err s' k).
Proof.
  intros i x. split; [intros r v; apply (stable_ok _ _ Stable_signed_old) |
    intros s k E; destruct (stable_err _ _ Stable_signed_old i x s k E) as [s' [E' _]]; exists s'; exact E'].
Qed.
Theorem C06_provenance_signed_old : forall i r v, run parse_digitally_signed_old i = Ok r v ->
  forall s, In s (slices v) -> within i s /\ off s + slen s <= off r.
Proof. exact (prov_top _ _ Prov_ds_old). Qed.
Theorem C06_stable_sct : forall i x,
  (forall r v, run parse_ct_signed_certificate_timestamp i = Ok r v -> run parse_ct_signed_certificate_timestamp (sapp i x) = Ok (sapp r x) v) /\
  (forall s k, run parse_ct_signed_certificate_timestamp i = Err s k -> exists s', run parse_ct_signed_certificate_timestamp (sapp i x) = Err s' k).
Proof.
  intros i x. split; [intros r v; apply (stable_ok _ _ Stable_sct) |
    intros s k E; destruct (stable_err _ _ Stable_sct i x s k E) as [s' [E' _]]; exists s'; exact E'].
Qed.
Theorem C06_provenance_sct : forall i r v, run parse_ct_signed_certificate_timestamp i = Ok r v ->
  forall s, In s (slices v) -> within i s /\ off s + slen s <= off r.
Proof. exact (prov_top _ _ Prov_sct). Qed.
Theorem C06_stable_sct_list : forall i x,
  (forall r v, run parse_ct_signed_certificate_timestamp_list i = Ok r v -> run parse_ct_signed_certificate_timestamp_list (sapp i x) = Ok (sapp r x) v) /\
  (forall s k, run parse_ct_signed_certificate_timestamp_list i = Err s k -> exists s', run parse_ct_signed_certificate_timestamp_list (sapp i x) = Err s' k).
Proof.
  intros i x. split; [intros r v; apply (stable_ok _ _ Stable_sct_list) |
    intros s k E; destruct (stable_err _ _ Stable_sct_list i x s k E) as [s' [E' _]]; exists s'; exact E'].
Qed.
Theorem C06_provenance_sct_list : forall i r v, run parse_ct_signed_certificate_timestamp_list i = Ok r v ->
  forall s, In s (slices v) -> within i s /\ off s + slen s <= off r.
Proof. exact (prov_top _ _ Prov_sct_list). Qed.
Theorem C06_stable_dtls_record : forall i x,
  (forall r v, run parse_dtls_plaintext_record i = Ok r v -> run parse_dtls_plaintext_record (sapp i x) = Ok (sapp r x) v) /\
  (forall s k, run parse_dtls_plaintext_record i = Err s k -> exists s', run parse_dtls_plaintext_record (sapp i x) = Err s' k).
Proof.
  intros i x. split; [intros r v; apply (stable_ok _ _ Stable_dtls_record) |
    intros s k E; destruct (stable_err _ _ Stable_dtls_record i x s k E) as [s' [E' _]]; exists s'; exact E'].
Qed.
Theorem C06_provenance_dtls_record : forall i r v, run parse_dtls_plaintext_record i = Ok r v ->
  forall s, In s (slices v) -> within i s /\ off s + slen s <= off r.
Proof. exact (prov_top _ _ Prov_dplain). Qed.
Theorem C06_stable_dtls_handshake : forall i x,
  (forall r v, run parse_dtls_message_handshake i = Ok r v -> run parse_dtls_message_handshake (sapp i x) = Ok (sapp r x) v) /\
  (forall s k, run parse_dtls_message_handshake i = Err s k -> exists s', run parse_dtls_message_handshake (sapp i x) = Err s' k).
Proof.
  intros i x. split; [intros r v; apply (stable_ok _ _ Stable_dtls_handshake) |
    intros s k E; destruct (stable_err _ _ Stable_dtls_handshake i x s k E) as [s' [E' _]]; exists s'; exact E'].
Qed.
Theorem C06_provenance_dtls_handshake : forall i r v, run parse_dtls_message_handshake i = Ok r v ->
  forall s, In s (slices v) -> within i s /\ off s + slen s <= off r.
Proof. exact (prov_top _ _ Prov_dmsg_hs). Qed.

(* the 16 single-purpose extension parsers *)
Theorem C06_stable_tagged_extension_parsers : Forall (fun p => forall i x r v, run p i = Ok r v -> run p (sapp i x) = Ok (sapp r x) v) tagged_parsers.
Proof.
  eapply Forall_impl; [|exact Stable_tagged_parsers]. intros p Hp i x r v. apply (stable_ok _ _ Hp).
Qed.
(* key-exchange parameters followed by a signature, for any stable content parser *)
Theorem C06_stable_content_and_signature : forall T (f : P T) ext,
  Stable f -> forall i x r v, run (parse_content_and_signature f ext) i = Ok r v ->
  run (parse_content_and_signature f ext) (sapp i x) = Ok (sapp r x) v.
Proof. intros T f ext Hf. apply stable_ok, Stable_content_and_signature, Hf. Qed.

(* (b) for every parser term *)
Theorem C06_remainder_is_suffix : forall A (p : P A) i r v, run p i = Ok r v ->
  exists n, n <= slen i /\ r = sdrop i n.
Proof. exact run_suffix. Qed.

(* (d) *)
Theorem C06_defragmenter_provenance : forall dbg s hdr data s' reg rem v,
  parse_record dbg s hdr data = (s', (reg, Ok rem v)) ->
  forall sl, In sl (slices v) ->
    match reg with
    | Caller => within (mkS 0 data) sl /\ off sl + slen sl <= off rem
    | Buffer => within (mkS 0 (d_buf s')) sl /\ off sl + slen sl <= off rem
    end.
Proof. exact defrag_provenance. Qed.

(* non-vacuity: a handshake record followed by bytes that look like another record *)
Example C06_ex : exists r v, run parse_tls_plaintext (mkS 0 [x16; x03; x03; x00; x04; x00; x00; x00; x00]) = Ok r v /\
  run parse_tls_plaintext (sapp (mkS 0 [x16; x03; x03; x00; x04; x00; x00; x00; x00]) [x16; x03; x03; x00; x04]) = Ok (sapp r [x16; x03; x03; x00; x04]) v.
Proof. eexists. eexists. split; vm_compute; reflexivity. Qed.

Print Assumptions C06_stable_plaintext.
Print Assumptions C06_provenance_plaintext.
Print Assumptions C06_stable_encrypted.
Print Assumptions C06_provenance_encrypted.
Print Assumptions C06_stable_raw_record.
Print Assumptions C06_provenance_raw_record.
Print Assumptions C06_stable_handshake.
Print Assumptions C06_provenance_handshake.
Print Assumptions C06_stable_extension.
Print Assumptions C06_provenance_extension.
Print Assumptions C06_stable_client_hello_extension.
Print Assumptions C06_provenance_client_hello_extension.
Print Assumptions C06_stable_server_hello_extension.
Print Assumptions C06_provenance_server_hello_extension.
Print Assumptions C06_stable_dh.
Print Assumptions C06_provenance_dh.
Print Assumptions C06_stable_ec_parameters.
Print Assumptions C06_provenance_ec_parameters.
Print Assumptions C06_stable_ecdh.
Print Assumptions C06_provenance_ecdh.
Print Assumptions C06_stable_signed.
Print Assumptions C06_provenance_signed.
Print Assumptions C06_stable_signed_old.
Print Assumptions C06_provenance_signed_old.
Print Assumptions C06_stable_sct.
Print Assumptions C06_provenance_sct.
Print Assumptions C06_stable_sct_list.
Print Assumptions C06_provenance_sct_list.
Print Assumptions C06_stable_dtls_record.
Print Assumptions C06_provenance_dtls_record.
Print Assumptions C06_stable_dtls_handshake.
Print Assumptions C06_provenance_dtls_handshake.
Print Assumptions C06_stable_tagged_extension_parsers.
Print Assumptions C06_stable_content_and_signature.
Print Assumptions C06_remainder_is_suffix.
Print Assumptions C06_defragmenter_provenance.
