(* C09 — serializer output parses back to the same value with consistent lengths. *)
From TlsModel Require Import Bytes Nom Values Handshake Record Extensions Serialize Wire Strip ExtEnc HandshakeProofs ExtProofs SerProofs.

(* the type bytes, extension tags and the ChangeCipherSpec byte read from src/tls_serialize.rs *)
Theorem C09_constants : ser_consts_ok = true.
Proof. vm_compute. reflexivity. Qed.
Theorem C09_tables : hs_tables_std = true.
Proof. exact (eq_refl true). Qed.

(* the output IS the RFC encoding of the (normalised) value: hence every emitted length field
   (handshake u24, session id, cipher, compression, extension block) equals the length of what it prefixes *)
Theorem C09_is_rfc_encoding : forall h, supported_hs h = true -> ser_limits h ->
  gen_tls_messagehandshake h = SerOk (enc_handshake (norm_hs h)).
Proof. exact (ser_is_rfc_encoding C09_constants). Qed.
Theorem C09_ccs : gen_tls_message MChangeCipherSpec = SerOk (enc_msg MChangeCipherSpec).
Proof. exact (ser_ccs C09_constants). Qed.

Theorem C09_roundtrip : forall h, supported_hs h = true -> ser_limits h -> wf_hs (norm_hs h) ->
  exists b m', gen_tls_messagehandshake h = SerOk b /\
               run parse_tls_message_handshake (mkS 0 b) = Ok (mkS (0 + lenN b) []) m' /\
               msg_eqv m' (MHandshake (norm_hs h)).
Proof. exact (ser_roundtrip C09_constants C09_tables). Qed.
Theorem C09_reserialize_same : forall h, supported_hs h = true -> ser_limits h ->
  lenN (enc_hs_body (norm_hs h)) < 16777216 ->
  gen_tls_messagehandshake (norm_hs h) = gen_tls_messagehandshake h.
Proof. exact (reserialize_same C09_constants). Qed.

(* records: type, version, u16 length of the real payload, the messages *)
Theorem C09_record : forall ty ver hlen msgs,
  (forall m, In m msgs -> supported_msg m = true /\ msg_limits m) ->
  gen_tls_plaintext (mkPlain (mkHdr ty ver hlen) msgs) = SerOk (enc_record ty ver (cat enc_msg (map norm_msg msgs))).
Proof. exact (ser_record C09_constants). Qed.

(* unsupported values: NotYetImplemented, also when only one element of a record is unsupported *)
Theorem C09_nyi : forall h, supported_hs h = false -> gen_tls_messagehandshake h = SerNYI.
Proof. exact ser_nyi. Qed.
Theorem C09_record_nyi : forall ty ver hlen msgs m, In m msgs -> supported_msg m = false ->
  (forall x, In x msgs -> gen_tls_message x <> SerPanic) ->
  gen_tls_plaintext (mkPlain (mkHdr ty ver hlen) msgs) = SerNYI.
Proof. exact ser_record_nyi. Qed.
Theorem C09_ext_nyi : forall e, ext_supported e = false -> gen_tls_extension e = SerNYI.
Proof. exact ser_ext_nyi. Qed.

(* SNI (non-empty), max-fragment-length and supported-groups: the RFC encoding, which C05 decodes back *)
Theorem C09_extensions : forall e, ext_supported e = true -> (match e with ESNI [] => False | _ => True end) ->
  gen_tls_extension e = SerOk (enc_ext e).
Proof. exact (ser_ext_is_enc C09_constants). Qed.

Print Assumptions C09_constants.
Print Assumptions C09_tables.
Print Assumptions C09_is_rfc_encoding.
Print Assumptions C09_ccs.
Print Assumptions C09_roundtrip.
Print Assumptions C09_reserialize_same.
Print Assumptions C09_record.
Print Assumptions C09_nyi.
Print Assumptions C09_record_nyi.
Print Assumptions C09_ext_nyi.
Print Assumptions C09_extensions.
