(* C15 — hello accessors and constructors reflect the parsed fields.
   The getters (version, random, session_id, ciphers, comp, ext, get_version, new) are record projections /
   constructors in the model; the tie checks them on the implementation.  The derived accessors: *)
From TlsModel Require Import Bytes Values Accessors Ciphers CipherTypes AccessorProofs.

(* the source computes rand_time from the first four bytes (form read from the trait's provided method) *)
Theorem C15_rand_time_form : rand_time_ok = true.
Proof. exact (eq_refl true). Qed.

Theorem C15_rand_time : forall random,
  rand_time random = if 4 <=? slen random then be_val (takeN (bytes random) 4) else 0.
Proof. exact (rand_time_spec C15_rand_time_form). Qed.
Theorem C15_rand_time_32 : forall random, slen random = 32 ->
  rand_time random = be_val (takeN (bytes random) 4) /\ rand_time random < 2 ^ 32.
Proof. exact (rand_time_32 C15_rand_time_form). Qed.
Theorem C15_rand_bytes_32 : forall random, slen random = 32 ->
  rand_bytes random = sdrop random 4 /\ slen (rand_bytes random) = 28.
Proof. exact rand_bytes_32. Qed.
Theorem C15_rand_short : forall random, slen random < 4 -> rand_time random = 0 /\ bytes (rand_bytes random) = [].
Proof. exact (rand_short C15_rand_time_form). Qed.
Theorem C15_cipher_map : forall ids,
  cipher_suites ids = map (fun id => option_map c_id (from_id id)) ids /\ length (cipher_suites ids) = length ids.
Proof. exact cipher_map. Qed.

Print Assumptions C15_rand_time_form.
Print Assumptions C15_rand_time.
Print Assumptions C15_rand_time_32.
Print Assumptions C15_rand_bytes_32.
Print Assumptions C15_rand_short.
Print Assumptions C15_cipher_map.
