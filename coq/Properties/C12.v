(* C12 — the cipher-suite registry is exact, self-consistent and invertible. *)
From Coq Require Import String NArith List.
From TlsModel Require Import CipherTypes CipherDump CipherTxt CipherSpec Iana2026 Ciphers FinMapLemmas CipherProofs.
Open Scope N_scope.

(* for every id (all integers): the compiled registry and scripts/tls-ciphersuites.txt agree on the ten columns *)
Theorem C12_exact : forall id, lookup c_id id impl_core = lookup c_id id spec_rows.
Proof. exact (exact exact_ok_true). Qed.
Theorem C12_iana_kept : forall r, In r iana2026 -> In r impl_core.
Proof. exact (iana_kept iana_kept_ok_true). Qed.

(* the four lookup routes agree with from_id on every id, and a returned suite carries the queried id *)
Theorem C12_routes : forall id k, (k < 4)%nat ->
  route k id = match from_id id with Some r => Some (c_id r) | None => None end /\
  (forall r, from_id id = Some r -> c_id r = id).
Proof. exact (routes routes_ok_true). Qed.

(* names are unique; lookup by name returns exactly the suite with that name, for every string *)
Theorem C12_names :
  NoDup (map c_name values) /\
  forall s r, from_name s = Some r <-> In r values /\ c_name r = s.
Proof. exact (names names_ok_true). Qed.

Theorem C12_sizes : forall r, In r impl_rows ->
  enc_key_size r = c_enc_size r / 8 /\ enc_block_size r = block_spec (c_enc r) /\
  mac_len_ok r (mac_length r) = true /\
  c_impl_key_size r = enc_key_size r /\ c_impl_block_size r = enc_block_size r /\ c_impl_mac_length r = mac_length r.
Proof. exact (sizes sizes_ok_true). Qed.

Theorem C12_name_tokens : forall r, In r impl_rows -> name_rules r = true.
Proof. exact (name_tokens name_tokens_ok_true). Qed.

Example C12_ex : option_map c_name (from_id 49199) = Some "TLS_ECDHE_RSA_WITH_AES_128_GCM_SHA256"%string.
Proof. reflexivity. Qed.

Print Assumptions C12_exact.
Print Assumptions C12_iana_kept.
Print Assumptions C12_routes.
Print Assumptions C12_names.
Print Assumptions C12_sizes.
Print Assumptions C12_name_tokens.
