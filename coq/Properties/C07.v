(* C07 — the record defragmenter equals accumulate-then-parse, with its safety limits. *)
From TlsModel Require Import Bytes Nom Values Record Defrag Consts DefragProofs.

Theorem C07_cap_value : MAX_RECORD_DATA = 10 * 2 ^ 20.
Proof. exact (eq_refl MAX_RECORD_DATA). Qed.

(* no assertion can fire in parse_record (read from the source on this run) *)
Theorem C07_no_assertion : DEFRAG_DEBUG_ASSERT = false.
Proof. exact (eq_refl false). Qed.

(* any payload split at arbitrary points into k >= 2 successive records of one type (not alert/CCS)
   such that every proper prefix still needs more bytes: k-1 Incomplete answers with
   defrag_in_progress() = true, then exactly the one-shot result of the unsplit payload, parser idle *)
Theorem C07_split : forall ty ver f1 rest s r v,
  ty <> 21 -> ty <> 20 -> d_cur s = None -> rest <> [] ->
  lenN (concat (f1 :: rest)) < MAX_RECORD_DATA ->
  prefixes_need_more ty ver [] (f1 :: rest) ->
  one_shot ty ver (concat (f1 :: rest)) = Ok r v ->
  exists mids,
    run_ops DEFRAG_DEBUG_ASSERT s (frag_ops ty ver (f1 :: rest)) =
      mids ++ [(Some (Buffer, Ok r v), mkD (concat (f1 :: rest)) None)] /\
    length mids = length rest /\ Forall mid_ok mids.
Proof.
  intros ty ver f1 rest s r v H21 H20 Hc Hne.
  exact (split DEFRAG_DEBUG_ASSERT ty ver f1 rest s r v H21 H20 Hc Hne
           (fun H => False_ind _ (Bool.diff_false_true H))).
Qed.

(* a record that parses on its own is returned from the caller's data without buffering *)
Theorem C07_single_record : forall dbg s hdr data r v, d_cur s = None ->
  run (parse_tls_record_with_header hdr) (mkS 0 data) = Ok r v ->
  parse_record dbg s hdr data = (s, (Caller, Ok r v)).
Proof. exact single_record. Qed.

(* refusals while defragmenting, each leaving the state unchanged *)
Theorem C07_foreign_type : forall dbg s t hdr data,
  d_cur s = Some t -> (dbg = true -> d_buf s <> []) -> h_type hdr <> t ->
  parse_record dbg s hdr data = (s, (Caller, Err empty_in KTag)).
Proof. exact foreign_type. Qed.
Theorem C07_too_large : forall dbg s t hdr data,
  d_cur s = Some t -> (dbg = true -> d_buf s <> []) -> h_type hdr = t ->
  MAX_RECORD_DATA <= lenN (d_buf s) + lenN data ->
  parse_record dbg s hdr data = (s, (Caller, Err empty_in KTooLarge)).
Proof. exact too_large. Qed.
Theorem C07_nocopy_refused : forall s hdr data, d_cur s <> None ->
  nocopy s hdr data = (s, (Caller, Fail empty_in KNonEmpty)).
Proof. exact nocopy_refused. Qed.

(* for records within the record-length cap the buffer never reaches 10 MiB, on any history *)
Theorem C07_buffer_bound : forall dbg ops, Forall record_within_cap ops ->
  Forall (fun e => bounded (snd e)) (run_ops dbg d_init ops).
Proof. intros dbg ops. exact (buffer_bound dbg ops d_init init_bounded). Qed.

(* after reset() and after a completed message (both leave d_cur = None) the parser behaves as a
   fresh one: results and defrag_in_progress() of any continuation are those of a new parser *)
Theorem C07_idle_is_fresh : forall dbg s ops, d_cur s = None ->
  observe (run_ops dbg s ops) = observe (run_ops dbg d_init ops).
Proof. exact idle_is_fresh. Qed.
Theorem C07_reset_is_init : forall dbg s, fst (step dbg s OpReset) = d_init.
Proof. exact reset_idle. Qed.

Print Assumptions C07_cap_value.
Print Assumptions C07_no_assertion.
Print Assumptions C07_split.
Print Assumptions C07_single_record.
Print Assumptions C07_foreign_type.
Print Assumptions C07_too_large.
Print Assumptions C07_nocopy_refused.
Print Assumptions C07_buffer_bound.
Print Assumptions C07_idle_is_fresh.
Print Assumptions C07_reset_is_init.
