(* C08 — the handshake state machine accepts exactly the documented flows. *)
From TlsModel Require Import StatesTypes States Flows StateTable StatesProofs.

(* every cell: 25 states x both directions x every message (all alerts, all payloads
   within a kind); obligations over the regenerated tables discharged by computation *)
Theorem C08_cells : forall st m to_server,
  tls_state_transition st m to_server = spec_transition st m to_server.
Proof. exact (cells (eq_refl true) (eq_refl WARNING)). Qed.

Theorem C08_sequences : forall l st,
  fold_t tls_state_transition st l = fold_t spec_transition st l.
Proof. exact (sequences (eq_refl true) (eq_refl WARNING)). Qed.

(* non-vacuity: every documented flow is accepted end to end by the code's tables *)
Theorem C08_flows_accepted : flows_ok = true.
Proof. exact (eq_refl true). Qed.

Theorem C08_absorbing_invalid : forall m d, tls_state_transition SInvalid m d = Some SInvalid.
Proof. intros m d. rewrite C08_cells. exact (spec_invalid m d). Qed.
Theorem C08_absorbing_encrypted : forall m d, tls_state_transition SSessionEncrypted m d = Some SSessionEncrypted.
Proof. intros m d. rewrite C08_cells. exact (spec_encrypted m d). Qed.
Theorem C08_finished_to_invalid : forall m d, tls_state_transition SFinished m d = Some SInvalid.
Proof. intros m d. rewrite C08_cells. exact (spec_finished m d). Qed.
Theorem C08_alert_rule : forall st sev code d, live st ->
  tls_state_transition st (MkAlert sev code) d = Some (if sev =? 1 then st else SFinished).
Proof. intros st sev code d H. rewrite C08_cells. exact (spec_alert st sev code d H). Qed.
Theorem C08_hello_request_rule : forall st sid d, live st -> st <> SNone ->
  tls_state_transition st (MkHs KHelloRequest sid) d = Some st.
Proof. intros st sid d H H'. rewrite C08_cells. exact (spec_hello_request st sid d H H'). Qed.
Theorem C08_hello_request_at_start : forall sid d, tls_state_transition SNone (MkHs KHelloRequest sid) d = None.
Proof. intros sid d. rewrite C08_cells. exact (spec_hello_request_none sid d). Qed.
(* each accepted handshake message is an edge of a documented flow in the sender's direction *)
Theorem C08_senders : senders_ok = true.
Proof. exact (eq_refl true). Qed.

Print Assumptions C08_cells.
Print Assumptions C08_sequences.
Print Assumptions C08_flows_accepted.
Print Assumptions C08_absorbing_invalid.
Print Assumptions C08_absorbing_encrypted.
Print Assumptions C08_finished_to_invalid.
Print Assumptions C08_alert_rule.
Print Assumptions C08_hello_request_rule.
Print Assumptions C08_hello_request_at_start.
Print Assumptions C08_senders.
