(* C14 — Signed Certificate Timestamp lists decode per RFC 6962. *)
From TlsModel Require Import Bytes Nom Values Kx Wire KxEnc ManyLemmas KxProofs.

Theorem C14_sct_roundtrip : forall s rest o, wf_sct s ->
  exists v', run parse_ct_signed_certificate_timestamp (mkS o (enc_sct s ++ rest)) =
               Ok (mkS (o + lenN (enc_sct s)) rest) v' /\ strip_sct v' = strip_sct s.
Proof. exact sct_roundtrip. Qed.
Theorem C14_list_roundtrip : forall l rest o,
  (forall s, In s l -> wf_sct s) -> lenN (cat enc_sct l) < 65536 ->
  exists vs', run parse_ct_signed_certificate_timestamp_list (mkS o (enc_sct_list l ++ rest)) =
                Ok (mkS (o + lenN (enc_sct_list l)) rest) vs' /\ Forall2 sct_eqv vs' l.
Proof. exact sct_list_roundtrip. Qed.
Theorem C14_list_overlong : forall n body o, n < 65536 -> lenN body < n ->
  run parse_ct_signed_certificate_timestamp_list (mkS o (u16 n ++ body)) = Incomplete (Size (n - lenN body)).
Proof. exact sct_list_overlong. Qed.
Theorem C14_entry_overlong : forall n body o, n < 65536 -> lenN body < n ->
  stops parse_ct_signed_certificate_timestamp (mkS o (u16 n ++ body)).
Proof. exact sct_entry_overlong. Qed.

Print Assumptions C14_sct_roundtrip.
Print Assumptions C14_list_roundtrip.
Print Assumptions C14_list_overlong.
Print Assumptions C14_entry_overlong.
