(* C11 — enumerated code points that do not select the structure are accepted and preserved.
   Every statement quantifies over the full wire width of the field (u8: < 256, u16: < 65536);
   the remaining hypotheses are structural (lengths), never about the code point's value. *)
From TlsModel Require Import Bytes Nom Values DispatchTypes Dispatch Handshake Record Extensions Kx Wire Strip ExtEnc KxEnc RecordSpec
  RecordProofs MessageProofs HandshakeProofs ExtProofs KxProofs TableLemmas EnumProofs.

(* obligations over the tables regenerated from the source on this run *)
Theorem C11_rec_dispatch : rec_table_std = true.
Proof. exact (eq_refl true). Qed.
Theorem C11_hs_tables : hs_tables_std = true.
Proof. exact (eq_refl true). Qed.
Theorem C11_ext_table : generic_ok = true.
Proof. vm_compute. reflexivity. Qed.
Theorem C11_grease : grease_ok = true.
Proof. vm_compute. reflexivity. Qed.

(* content type and version of raw / encrypted records *)
Theorem C11_record_type_version : forall ty ver payload rest o, ty < 256 -> ver < 65536 -> lenN payload <= RECORD_CAP ->
  run parse_tls_raw_record (mkS o (enc_record ty ver payload ++ rest)) =
    Ok (mkS (o + 5 + lenN payload) rest) (mkRaw (mkHdr ty ver (lenN payload)) (mkS (o + 5) payload)) /\
  run parse_tls_encrypted (mkS o (enc_record ty ver payload ++ rest)) =
    Ok (mkS (o + 5 + lenN payload) rest) (mkEnc (mkHdr ty ver (lenN payload)) (mkS (o + 5) payload)).
Proof. exact any_record_type_version. Qed.

(* alert level and description *)
Theorem C11_alert : forall s c rest o, s < 256 -> c < 256 ->
  run parse_tls_message_alert (mkS o (u8 s ++ u8 c ++ rest)) = Ok (mkS (o + 2) rest) (MAlert s c).
Proof. exact any_alert. Qed.

(* heartbeat type, inside a heartbeat record *)
Theorem C11_heartbeat_type : forall hdr, h_type hdr = 24 -> 3 <= h_len hdr -> forall t payload padding o,
  t < 256 -> lenN payload < 65536 ->
  run (parse_tls_record_with_header hdr) (mkS o (u8 t ++ u16 (lenN payload) ++ payload ++ padding)) =
    Ok (mkS (o + 3 + lenN payload) padding) [MHeartbeat t (lenN payload) (mkS (o + 3) payload)].
Proof. exact (decode_heartbeat C11_rec_dispatch). Qed.

(* ClientHello: version, cipher-suite ids, compression ids *)
Theorem C11_client_hello_codes : forall v random sid ciphers comp ext rest o,
  v < 65536 -> Forall (fun x => x < 65536) ciphers -> Forall (fun x => x < 256) comp ->
  slen random = 32 -> wf_sid sid -> 2 * lenN ciphers < 65536 -> lenN comp < 256 -> wf_optext ext ->
  let c := mkCH v random sid ciphers comp ext in
  lenN (enc_hs_body (HClientHello c)) < 16777216 ->
  exists m', run parse_tls_message_handshake (mkS o (enc_handshake (HClientHello c) ++ rest)) =
               Ok (mkS (o + lenN (enc_handshake (HClientHello c))) rest) m' /\ msg_eqv m' (MHandshake (HClientHello c)).
Proof. exact (any_client_hello_codes C11_hs_tables). Qed.

(* ServerHello: cipher-suite id and compression id (the version selects the structure) *)
Theorem C11_server_hello_codes : forall v random sid cipher comp ext rest o,
  cipher < 65536 -> comp < 256 ->
  In v [768; 769; 770; 771] -> slen random = 32 -> wf_sid sid -> wf_optext ext -> (v = 768 -> ext = None) ->
  let c := mkSH v random sid cipher comp ext in
  lenN (enc_hs_body (HServerHello c)) < 16777216 ->
  exists m', run parse_tls_message_handshake (mkS o (enc_handshake (HServerHello c) ++ rest)) =
               Ok (mkS (o + lenN (enc_handshake (HServerHello c))) rest) m' /\ msg_eqv m' (MHandshake (HServerHello c)).
Proof. exact (any_server_hello_codes C11_hs_tables). Qed.

(* CertificateRequest: certificate types, signature algorithms *)
Theorem C11_cert_request_codes : forall types sigs ca rest o,
  Forall (fun x => x < 256) types -> Forall (fun x => x < 65536) sigs ->
  lenN types < 256 -> 2 * lenN sigs < 65536 -> wf_ca ca ->
  let c := mkCR types (Some sigs) ca in
  lenN (enc_hs_body (HCertificateRequest c)) < 16777216 ->
  exists m', run parse_tls_message_handshake (mkS o (enc_handshake (HCertificateRequest c) ++ rest)) =
               Ok (mkS (o + lenN (enc_handshake (HCertificateRequest c))) rest) m' /\
             msg_eqv m' (MHandshake (HCertificateRequest c)).
Proof. exact (any_cert_request_codes C11_hs_tables). Qed.

(* certificate-status type, key-update value *)
Theorem C11_cert_status_type : forall t blob rest o, t < 256 -> slen blob + 4 < 16777216 ->
  exists m', run parse_tls_message_handshake (mkS o (enc_handshake (HCertificateStatus t blob) ++ rest)) =
               Ok (mkS (o + lenN (enc_handshake (HCertificateStatus t blob))) rest) m' /\
             msg_eqv m' (MHandshake (HCertificateStatus t blob)).
Proof. exact (any_cert_status_type C11_hs_tables). Qed.
Theorem C11_key_update : forall v rest o, v < 256 ->
  exists m', run parse_tls_message_handshake (mkS o (enc_handshake (HKeyUpdate v) ++ rest)) =
               Ok (mkS (o + lenN (enc_handshake (HKeyUpdate v))) rest) m' /\ msg_eqv m' (MHandshake (HKeyUpdate v)).
Proof. exact (any_key_update C11_hs_tables). Qed.

(* extension type: every u16 that is neither GREASE nor in the dispatcher's table comes back as
   Unknown(type, data); every GREASE value as Grease(type, data) *)
Theorem C11_extension_type_unknown : forall tbl t data rest o, t < 65536 -> is_grease_simple t = false -> lenN data < 65536 ->
  assoc_N t tbl = None ->
  run (dispatch_ext tbl) (mkS o (u16 t ++ vec16 data ++ rest)) =
    Ok (mkS (o + 4 + lenN data) rest) (EUnknown t (mkS (o + 4) data)).
Proof. exact (unknown_preserved C11_grease). Qed.
Theorem C11_extension_type_grease : forall tbl t data rest o, t < 65536 -> is_grease_simple t = true -> lenN data < 65536 ->
  run (dispatch_ext tbl) (mkS o (u16 t ++ vec16 data ++ rest)) =
    Ok (mkS (o + 4 + lenN data) rest) (EGrease t (mkS (o + 4) data)).
Proof. exact (grease_preserved C11_grease). Qed.

(* named groups, signature schemes, SNI name types, status-request type, PSK modes, EC point formats *)
Theorem C11_named_groups : forall l rest o, all16 l -> 2 * lenN l + 2 < 65536 ->
  exists e', run parse_tls_extension (mkS o (enc_ext (EEllipticCurves l) ++ rest)) =
               Ok (mkS (o + lenN (enc_ext (EEllipticCurves l))) rest) e' /\ ext_eqv e' (EEllipticCurves l).
Proof. exact (any_named_groups C11_ext_table C11_grease). Qed.
Theorem C11_signature_algorithms : forall l rest o, all16 l -> 2 * lenN l + 2 < 65536 ->
  exists e', run parse_tls_extension (mkS o (enc_ext (ESignatureAlgorithms l) ++ rest)) =
               Ok (mkS (o + lenN (enc_ext (ESignatureAlgorithms l))) rest) e' /\ ext_eqv e' (ESignatureAlgorithms l).
Proof. exact (any_signature_algorithms C11_ext_table C11_grease). Qed.
Theorem C11_sni_name_types : forall l rest o, Forall (fun p => fst p < 256 /\ slen (snd p) < 65536) l ->
  lenN (enc_ext_content (ESNI l)) < 65536 ->
  exists e', run parse_tls_extension (mkS o (enc_ext (ESNI l) ++ rest)) =
               Ok (mkS (o + lenN (enc_ext (ESNI l))) rest) e' /\ ext_eqv e' (ESNI l).
Proof. exact (any_sni_name_types C11_ext_table C11_grease). Qed.
Theorem C11_status_request_type : forall t s rest o, t < 256 -> slen s + 1 < 65536 ->
  exists e', run parse_tls_extension (mkS o (enc_ext (EStatusRequest (Some (t, s))) ++ rest)) =
               Ok (mkS (o + lenN (enc_ext (EStatusRequest (Some (t, s))))) rest) e' /\
             ext_eqv e' (EStatusRequest (Some (t, s))).
Proof. exact (any_status_request_type C11_ext_table C11_grease). Qed.
Theorem C11_psk_modes : forall l rest o, lenN l < 256 ->
  exists e', run parse_tls_extension (mkS o (enc_ext (EPskExchangeModes l) ++ rest)) =
               Ok (mkS (o + lenN (enc_ext (EPskExchangeModes l))) rest) e' /\ ext_eqv e' (EPskExchangeModes l).
Proof. exact (any_psk_modes C11_ext_table C11_grease). Qed.
Theorem C11_ec_point_formats : forall s rest o, slen s < 256 ->
  exists e', run parse_tls_extension (mkS o (enc_ext (EEcPointFormats s) ++ rest)) =
               Ok (mkS (o + lenN (enc_ext (EEcPointFormats s))) rest) e' /\ ext_eqv e' (EEcPointFormats s).
Proof. exact (any_ec_point_formats C11_ext_table C11_grease). Qed.

(* named group of a named_curve ECParameters; hash and signature algorithm bytes; CT version *)
Theorem C11_ec_named_group : forall g rest o, g < 65536 ->
  exists v', run parse_ec_parameters (mkS o (enc_ecparams (mkECP 3 (EcNamedGroup g)) ++ rest)) =
               Ok (mkS (o + lenN (enc_ecparams (mkECP 3 (EcNamedGroup g)))) rest) v' /\
             strip_ecp v' = strip_ecp (mkECP 3 (EcNamedGroup g)).
Proof. exact any_ec_named_group. Qed.
Theorem C11_signed_algs : forall h s data rest o, h < 256 -> s < 256 -> slen data < 65536 ->
  exists v', run parse_digitally_signed (mkS o (enc_signed (mkDS (Some (h, s)) data) ++ rest)) =
               Ok (mkS (o + lenN (enc_signed (mkDS (Some (h, s)) data))) rest) v' /\
             strip_ds v' = strip_ds (mkDS (Some (h, s)) data).
Proof. exact any_signed_algs. Qed.
Theorem C11_sct_version : forall v id ts ext h s sig rest o,
  v < 256 -> h < 256 -> s < 256 ->
  slen id = 32 -> ts < 2 ^ 64 -> slen ext < 65536 -> slen sig < 65536 ->
  let sct := mkSCT v id ts ext (mkDS (Some (h, s)) sig) in
  lenN (enc_sct_body sct) < 65536 ->
  exists v', run parse_ct_signed_certificate_timestamp (mkS o (enc_sct sct ++ rest)) =
               Ok (mkS (o + lenN (enc_sct sct)) rest) v' /\ strip_sct v' = strip_sct sct.
Proof. exact any_sct_version. Qed.

(* non-vacuity: unregistered values in concrete structures *)
Example C11_ex_alert : run parse_tls_message_alert (mkS 0 (u8 77 ++ u8 199 ++ [])) = Ok (mkS 2 []) (MAlert 77 199).
Proof. vm_compute. reflexivity. Qed.
Example C11_ex_groups : exists e', run parse_tls_extension (mkS 0 (enc_ext (EEllipticCurves [65535; 4660]) ++ [])) =
    Ok (mkS 10 []) e' /\ ext_eqv e' (EEllipticCurves [65535; 4660]).
Proof. eexists. split; vm_compute; reflexivity. Qed.

Print Assumptions C11_rec_dispatch.
Print Assumptions C11_hs_tables.
Print Assumptions C11_ext_table.
Print Assumptions C11_grease.
Print Assumptions C11_record_type_version.
Print Assumptions C11_alert.
Print Assumptions C11_heartbeat_type.
Print Assumptions C11_client_hello_codes.
Print Assumptions C11_server_hello_codes.
Print Assumptions C11_cert_request_codes.
Print Assumptions C11_cert_status_type.
Print Assumptions C11_key_update.
Print Assumptions C11_extension_type_unknown.
Print Assumptions C11_extension_type_grease.
Print Assumptions C11_named_groups.
Print Assumptions C11_signature_algorithms.
Print Assumptions C11_sni_name_types.
Print Assumptions C11_status_request_type.
Print Assumptions C11_psk_modes.
Print Assumptions C11_ec_point_formats.
Print Assumptions C11_ec_named_group.
Print Assumptions C11_signed_algs.
Print Assumptions C11_sct_version.
