(* C04 — handshake messages decode to the values an RFC encoder wrote; bad ones fail. *)
From TlsModel Require Import Bytes Nom Values DispatchTypes Handshake Wire Strip HandshakeProofs.

(* the handshake-type dispatch and the ServerHello version tables read from the source on this run
   are the expected ones (16 type codes; versions 0x0300..0x0303 and 0x7f12) *)
Theorem C04_tables : hs_tables_std = true.
Proof. exact (eq_refl true). Qed.

(* all 17 variants: type byte, 24-bit length, body; the value comes back exactly (modulo where the
   slices point), exactly the message is consumed, whatever follows is the remainder *)
Theorem C04_roundtrip : forall v rest o, wf_hs v ->
  exists m', run parse_tls_message_handshake (mkS o (enc_handshake v ++ rest)) =
               Ok (mkS (o + lenN (enc_handshake v)) rest) m' /\ msg_eqv m' (MHandshake v).
Proof. exact (handshake_roundtrip C04_tables). Qed.

(* never reading beyond the 24-bit length: the body parser sees the isolated body only *)
Theorem C04_confined : forall ht body rest o, ht < 256 -> lenN body < 16777216 ->
  run parse_tls_message_handshake (mkS o (u8 ht ++ u24 (lenN body) ++ body ++ rest)) =
    match assoc_N ht Dispatch.hs_table with
    | Some b => lift_hs (mkS (o + 4 + lenN body) rest) (run (hs_body b (lenN body)) (mkS (o + 4) body))
    | None => Err (mkS (o + 4 + lenN body) rest) KSwitch
    end.
Proof. exact handshake_char. Qed.

Theorem C04_reject_cut_off : forall ht hl body o, ht < 256 -> hl < 16777216 -> lenN body < hl ->
  run parse_tls_message_handshake (mkS o (u8 ht ++ u24 hl ++ body)) = Incomplete (Size (hl - lenN body)).
Proof. exact handshake_cut_off. Qed.
Theorem C04_reject_unknown_type : forall ht body rest o, ht < 256 -> lenN body < 16777216 ->
  assoc_N ht hs_table_expected = None ->
  run parse_tls_message_handshake (mkS o (u8 ht ++ u24 (lenN body) ++ body ++ rest)) =
    Err (mkS (o + 4 + lenN body) rest) KSwitch.
Proof. exact (unknown_type_rejected C04_tables). Qed.
Theorem C04_reject_sid_gt_32 : forall ver random n rest o, ver < 65536 -> lenN random = 32 -> 32 < n < 256 ->
  run parse_tls_handshake_client_hello (mkS o (u16 ver ++ random ++ u8 n ++ rest)) =
    Err (mkS (o + 2 + 32) (u8 n ++ rest)) KVerify.
Proof. exact reject_sid_gt_32. Qed.
Theorem C04_reject_sid_gt_32_server : forall ver random n rest o has_ext, ver < 65536 -> lenN random = 32 -> 32 < n < 256 ->
  run (parse_tls_server_hello_tlsv12 has_ext) (mkS o (u16 ver ++ random ++ u8 n ++ rest)) =
    Err (mkS (o + 2 + 32) (u8 n ++ rest)) KVerify.
Proof. exact reject_sid_gt_32_server. Qed.
Theorem C04_reject_cipher_len : forall len i, len <> 0 -> (len mod 2 = 1 \/ slen i < len) ->
  run (parse_cipher_suites len) i = Err i KLengthValue.
Proof. exact reject_cipher_len. Qed.
Theorem C04_reject_comp_len : forall len i, len <> 0 -> slen i < len ->
  run (parse_compressions_algs len) i = Err i KLengthValue.
Proof. exact reject_comp_len. Qed.
Theorem C04_reject_ticket_lt_4 : forall len i, len < 4 ->
  run (parse_tls_handshake_msg_newsessionticket len) i = Err i KVerify.
Proof. exact reject_ticket_lt_4. Qed.
Theorem C04_reject_server_hello_version : forall v body o, v < 65536 -> assoc_N v sh_msg_expected = None ->
  run parse_tls_handshake_msg_server_hello (mkS o (u16 v ++ body)) = Err (mkS o (u16 v ++ body)) KTag.
Proof. intros v body o. exact (reject_server_hello_version v body o C04_tables). Qed.
Theorem C04_reject_cert_list_overlong : forall n body o, n < 16777216 -> lenN body < n ->
  run parse_tls_certificate (mkS o (u24 n ++ body)) = Incomplete (Size (n - lenN body)).
Proof. exact reject_cert_list_overlong. Qed.
Theorem C04_reject_status_blob_overlong : forall t n body o, t < 256 -> n < 16777216 -> lenN body < n ->
  run parse_tls_handshake_certificatestatus (mkS o (u8 t ++ u24 n ++ body)) = Incomplete (Size (n - lenN body)).
Proof. exact reject_status_blob_overlong. Qed.

(* non-vacuity: a ClientHello with session id, two suites, one compression method and an empty extension block *)
Example C04_ex : wf_hs (HClientHello (mkCH 771 (mkS 0 (repeat x00 32)) (Some (mkS 0 [x01])) [47; 49199] [0] (Some (mkS 0 [])))).
Proof.
  split; [vm_compute; reflexivity|]. cbn [wf_hs]. unfold wf_ch. cbn [ch_version ch_random ch_sid ch_ciphers ch_comp ch_ext].
  split; [vm_compute; reflexivity|]. split; [vm_compute; reflexivity|].
  split; [unfold wf_sid; split; vm_compute; discriminate|].
  split; [repeat constructor; vm_compute; reflexivity|]. split; [vm_compute; reflexivity|].
  split; [repeat constructor; vm_compute; reflexivity|]. split; [vm_compute; reflexivity|].
  intros s H; injection H as <-. vm_compute. reflexivity.
Qed.

Print Assumptions C04_tables.
Print Assumptions C04_roundtrip.
Print Assumptions C04_confined.
Print Assumptions C04_reject_cut_off.
Print Assumptions C04_reject_unknown_type.
Print Assumptions C04_reject_sid_gt_32.
Print Assumptions C04_reject_sid_gt_32_server.
Print Assumptions C04_reject_cipher_len.
Print Assumptions C04_reject_comp_len.
Print Assumptions C04_reject_ticket_lt_4.
Print Assumptions C04_reject_server_hello_version.
Print Assumptions C04_reject_cert_list_overlong.
Print Assumptions C04_reject_status_blob_overlong.
