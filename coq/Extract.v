(* Extraction of the executable model.  ExtrOcamlBasic only: bool, option,
   unit, list, prod, sumbool, sumor map to OCaml's; N, positive, byte stay
   inductive.  No Extract Constant. *)
From Coq Require Extraction.
From Coq Require Import ExtrOcamlBasic.
From TlsModel Require Import Main GenMain.
Extraction Language OCaml.
Extraction "model.ml" run_line entry_names b2n n2b gen_lines family_names.
