
type __ = Obj.t

val negb : bool -> bool

type nat =
| O
| S of nat

val option_map : ('a1 -> 'a2) -> 'a1 option -> 'a2 option

type ('a, 'b) sum =
| Inl of 'a
| Inr of 'b

val fst : ('a1 * 'a2) -> 'a1

val snd : ('a1 * 'a2) -> 'a2

val app : 'a1 list -> 'a1 list -> 'a1 list

type comparison =
| Eq
| Lt
| Gt

type uint =
| Nil
| D0 of uint
| D1 of uint
| D2 of uint
| D3 of uint
| D4 of uint
| D5 of uint
| D6 of uint
| D7 of uint
| D8 of uint
| D9 of uint

val revapp : uint -> uint -> uint

val rev : uint -> uint

module Little :
 sig
  val double : uint -> uint

  val succ_double : uint -> uint
 end

val add : nat -> nat -> nat

type byte =
| X00
| X01
| X02
| X03
| X04
| X05
| X06
| X07
| X08
| X09
| X0a
| X0b
| X0c
| X0d
| X0e
| X0f
| X10
| X11
| X12
| X13
| X14
| X15
| X16
| X17
| X18
| X19
| X1a
| X1b
| X1c
| X1d
| X1e
| X1f
| X20
| X21
| X22
| X23
| X24
| X25
| X26
| X27
| X28
| X29
| X2a
| X2b
| X2c
| X2d
| X2e
| X2f
| X30
| X31
| X32
| X33
| X34
| X35
| X36
| X37
| X38
| X39
| X3a
| X3b
| X3c
| X3d
| X3e
| X3f
| X40
| X41
| X42
| X43
| X44
| X45
| X46
| X47
| X48
| X49
| X4a
| X4b
| X4c
| X4d
| X4e
| X4f
| X50
| X51
| X52
| X53
| X54
| X55
| X56
| X57
| X58
| X59
| X5a
| X5b
| X5c
| X5d
| X5e
| X5f
| X60
| X61
| X62
| X63
| X64
| X65
| X66
| X67
| X68
| X69
| X6a
| X6b
| X6c
| X6d
| X6e
| X6f
| X70
| X71
| X72
| X73
| X74
| X75
| X76
| X77
| X78
| X79
| X7a
| X7b
| X7c
| X7d
| X7e
| X7f
| X80
| X81
| X82
| X83
| X84
| X85
| X86
| X87
| X88
| X89
| X8a
| X8b
| X8c
| X8d
| X8e
| X8f
| X90
| X91
| X92
| X93
| X94
| X95
| X96
| X97
| X98
| X99
| X9a
| X9b
| X9c
| X9d
| X9e
| X9f
| Xa0
| Xa1
| Xa2
| Xa3
| Xa4
| Xa5
| Xa6
| Xa7
| Xa8
| Xa9
| Xaa
| Xab
| Xac
| Xad
| Xae
| Xaf
| Xb0
| Xb1
| Xb2
| Xb3
| Xb4
| Xb5
| Xb6
| Xb7
| Xb8
| Xb9
| Xba
| Xbb
| Xbc
| Xbd
| Xbe
| Xbf
| Xc0
| Xc1
| Xc2
| Xc3
| Xc4
| Xc5
| Xc6
| Xc7
| Xc8
| Xc9
| Xca
| Xcb
| Xcc
| Xcd
| Xce
| Xcf
| Xd0
| Xd1
| Xd2
| Xd3
| Xd4
| Xd5
| Xd6
| Xd7
| Xd8
| Xd9
| Xda
| Xdb
| Xdc
| Xdd
| Xde
| Xdf
| Xe0
| Xe1
| Xe2
| Xe3
| Xe4
| Xe5
| Xe6
| Xe7
| Xe8
| Xe9
| Xea
| Xeb
| Xec
| Xed
| Xee
| Xef
| Xf0
| Xf1
| Xf2
| Xf3
| Xf4
| Xf5
| Xf6
| Xf7
| Xf8
| Xf9
| Xfa
| Xfb
| Xfc
| Xfd
| Xfe
| Xff

val of_bits :
  (bool * (bool * (bool * (bool * (bool * (bool * (bool * bool))))))) -> byte

val to_bits :
  byte -> bool * (bool * (bool * (bool * (bool * (bool * (bool * bool))))))

val eqb : bool -> bool -> bool

type positive =
| XI of positive
| XO of positive
| XH

type n =
| N0
| Npos of positive

module Pos :
 sig
  type mask =
  | IsNul
  | IsPos of positive
  | IsNeg
 end

module Coq_Pos :
 sig
  val succ : positive -> positive

  val add : positive -> positive -> positive

  val add_carry : positive -> positive -> positive

  val pred_double : positive -> positive

  val pred_N : positive -> n

  type mask = Pos.mask =
  | IsNul
  | IsPos of positive
  | IsNeg

  val succ_double_mask : mask -> mask

  val double_mask : mask -> mask

  val double_pred_mask : positive -> mask

  val sub_mask : positive -> positive -> mask

  val sub_mask_carry : positive -> positive -> mask

  val mul : positive -> positive -> positive

  val iter : ('a1 -> 'a1) -> 'a1 -> positive -> 'a1

  val pow : positive -> positive -> positive

  val compare_cont : comparison -> positive -> positive -> comparison

  val compare : positive -> positive -> comparison

  val eqb : positive -> positive -> bool

  val coq_Nsucc_double : n -> n

  val coq_Ndouble : n -> n

  val coq_land : positive -> positive -> n

  val iter_op : ('a1 -> 'a1 -> 'a1) -> positive -> 'a1 -> 'a1

  val to_nat : positive -> nat

  val of_succ_nat : nat -> positive

  val to_little_uint : positive -> uint

  val to_uint : positive -> uint
 end

module N :
 sig
  val succ_double : n -> n

  val double : n -> n

  val succ : n -> n

  val pred : n -> n

  val add : n -> n -> n

  val sub : n -> n -> n

  val mul : n -> n -> n

  val compare : n -> n -> comparison

  val eqb : n -> n -> bool

  val leb : n -> n -> bool

  val ltb : n -> n -> bool

  val min : n -> n -> n

  val max : n -> n -> n

  val div2 : n -> n

  val pow : n -> n -> n

  val pos_div_eucl : positive -> n -> n * n

  val div_eucl : n -> n -> n * n

  val div : n -> n -> n

  val modulo : n -> n -> n

  val coq_land : n -> n -> n

  val shiftr : n -> n -> n

  val to_nat : n -> nat

  val of_nat : nat -> n

  val iter : n -> ('a1 -> 'a1) -> 'a1 -> 'a1

  val to_uint : n -> uint
 end

val nth : nat -> 'a1 list -> 'a1 -> 'a1

val concat : 'a1 list list -> 'a1 list

val map : ('a1 -> 'a2) -> 'a1 list -> 'a2 list

val flat_map : ('a1 -> 'a2 list) -> 'a1 list -> 'a2 list

val fold_left : ('a1 -> 'a2 -> 'a1) -> 'a2 list -> 'a1 -> 'a1

val fold_right : ('a2 -> 'a1 -> 'a1) -> 'a1 -> 'a2 list -> 'a1

val existsb : ('a1 -> bool) -> 'a1 list -> bool

val forallb : ('a1 -> bool) -> 'a1 list -> bool

val find : ('a1 -> bool) -> 'a1 list -> 'a1 option

val firstn : nat -> 'a1 list -> 'a1 list

val skipn : nat -> 'a1 list -> 'a1 list

val repeat : 'a1 -> nat -> 'a1 list

val eqb0 : byte -> byte -> bool

val to_N : byte -> n

val of_N : n -> byte option

type ascii =
| Ascii of bool * bool * bool * bool * bool * bool * bool * bool

val eqb1 : ascii -> ascii -> bool

val n_of_digits : bool list -> n

val n_of_ascii : ascii -> n

val ascii_of_byte : byte -> ascii

val byte_of_ascii : ascii -> byte

type string =
| EmptyString
| String of ascii * string

val eqb2 : string -> string -> bool

val append : string -> string -> string

val string_of_list_ascii : ascii list -> string

val list_ascii_of_string : string -> ascii list

val string_of_list_byte : byte list -> string

val list_byte_of_string : string -> byte list

val b2n : byte -> n

val n2b : n -> byte

val lenN : 'a1 list -> n

val takeN : 'a1 list -> n -> 'a1 list

val dropN : 'a1 list -> n -> 'a1 list

val split_at : 'a1 list -> n -> ('a1 list * 'a1 list, n) sum

val has_len : 'a1 list -> n -> bool

val be_fold : n -> byte list -> n

val be_val : byte list -> n

val be_enc : nat -> n -> byte list

val u8 : n -> byte list

val u16 : n -> byte list

val u24 : n -> byte list

val u32 : n -> byte list

val u48 : n -> byte list

val u64 : n -> byte list

type slice = { off : n; bytes : byte list }

val slen : slice -> n

val sdrop : slice -> n -> slice

val pairs16 : byte list -> n list option

type needed =
| Unknown
| Size of n

val mk_needed : n -> needed

type ekind =
| KTag
| KVerify
| KSwitch
| KTooLarge
| KLengthValue
| KComplete
| KMany0
| KMany1
| KCount
| KAlt
| KNonEmpty

type 'a res =
| Ok of slice * 'a
| Err of slice * ekind
| Fail of slice * ekind
| Incomplete of needed
| Panic
| OutOfFuel

type 'x p =
| Ret of 'x
| Bind of __ p * (__ -> 'x p)
| ErrK of ekind
| Take of n
| BeU of nat
| TagB of byte list
| Cmpl of 'x p
| Opt of __ p
| On of slice * 'x p
| Many0 of __ p
| Many1 of __ p
| Alt of 'x p * 'x p
| Vrfy of 'x p * ('x -> bool)
| Peek of 'x p
| GetI
| Idx of n
| PanicP

val tag_cmp : byte list -> byte list -> bool option

val many0_loop : (slice -> 'a1 res) -> byte list -> slice -> 'a1 list res

val many1_loop : (slice -> 'a1 res) -> byte list -> slice -> 'a1 list res

val many0_run : (slice -> 'a1 res) -> slice -> 'a1 list res

val many1_run : (slice -> 'a1 res) -> slice -> 'a1 list res

val run : 'a1 p -> slice -> 'a1 res

val pmap : 'a1 p -> ('a1 -> 'a2) -> 'a2 p

val length_data : n p -> slice p

val map_parser : slice p -> 'a1 p -> 'a1 p

val cond : bool -> 'a1 p -> 'a1 option p

val be_u8 : n p

val be_u16 : n p

val be_u24 : n p

val be_u32 : n p

val be_u64 : n p

val count_u8 : nat -> n list p

val length_count_u8_u8 : n list p

type tlsRecordHeader = { h_type : n; h_version : n; h_len : n }

type clientHelloC = { ch_version : n; ch_random : slice;
                      ch_sid : slice option; ch_ciphers : n list;
                      ch_comp : n list; ch_ext : slice option }

type serverHelloC = { sh_version : n; sh_random : slice;
                      sh_sid : slice option; sh_cipher : n; sh_comp : 
                      n; sh_ext : slice option }

type serverHello13C = { sh13_version : n; sh13_random : slice;
                        sh13_cipher : n; sh13_ext : slice option }

type helloRetryC = { hrr_version : n; hrr_cipher : n; hrr_ext : slice option }

type certRequestC = { cr_types : n list; cr_sigalgs : n list option;
                      cr_ca : slice list }

type clientKeyExchangeC =
| CkeDh of slice
| CkeEcdh of slice
| CkeUnknown of slice

type tlsMessageHandshake =
| HHelloRequest
| HClientHello of clientHelloC
| HServerHello of serverHelloC
| HServerHelloV13Draft18 of serverHello13C
| HNewSessionTicket of n * slice
| HEndOfEarlyData
| HHelloRetryRequest of helloRetryC
| HCertificate of slice list
| HServerKeyExchange of slice
| HCertificateRequest of certRequestC
| HServerDone of slice
| HCertificateVerify of slice
| HClientKeyExchange of clientKeyExchangeC
| HFinished of slice
| HCertificateStatus of n * slice
| HNextProtocol of slice * slice
| HKeyUpdate of n

type tlsMessage =
| MHandshake of tlsMessageHandshake
| MChangeCipherSpec
| MAlert of n * n
| MApplicationData of slice
| MHeartbeat of n * n * slice

type tlsPlaintext = { p_hdr : tlsRecordHeader; p_msg : tlsMessage list }

type tlsEncrypted = { e_hdr : tlsRecordHeader; e_blob : slice }

type tlsRawRecord = { r_hdr : tlsRecordHeader; r_data : slice }

type tlsExtension =
| ESNI of (n * slice) list
| EMaxFragmentLength of n
| EStatusRequest of (n * slice) option
| EEllipticCurves of n list
| EEcPointFormats of slice
| ESignatureAlgorithms of n list
| ERecordSizeLimit of n
| ESessionTicket of slice
| EKeyShareOld of slice
| EKeyShare of slice
| EPreSharedKey of slice
| EEarlyData of n option
| ESupportedVersions of n list
| ECookie of slice
| EPskExchangeModes of byte list
| EHeartbeat of n
| EALPN of slice list
| ESignedCertificateTimestamp of slice option
| EPadding of slice
| EEncryptThenMac
| EExtendedMasterSecret
| EOidFilters of (slice * slice) list
| EPostHandshakeAuth
| ENextProtocolNegotiation
| ERenegotiationInfo of slice
| EEncryptedServerName of n * n * slice * slice * slice
| EGrease of n * slice
| EUnknown of n * slice

type serverDHParams = { dh_p : slice; dh_g : slice; dh_ys : slice }

type explicitPrimeC = { ep_prime_p : slice; ep_a : slice; ep_b : slice;
                        ep_base : slice; ep_order : slice; ep_cofactor : 
                        slice }

type eCParametersContent =
| EcExplicitPrime of explicitPrimeC
| EcNamedGroup of n

type eCParameters = { ec_curve_type : n; ec_content : eCParametersContent }

type serverECDHParams = { ecdh_params : eCParameters; ecdh_public : slice }

type digitallySigned = { ds_alg : (n * n) option; ds_data : slice }

type sCT = { sct_version : n; sct_id : slice; sct_timestamp : n;
             sct_ext : slice; sct_sig : digitallySigned }

type dTLSRecordHeader = { d_type : n; d_version : n; d_epoch : n; d_seq : 
                          n; d_len : n }

type dTLSClientHelloC = { dch_version : n; dch_random : slice;
                          dch_sid : slice option; dch_cookie : slice;
                          dch_ciphers : n list; dch_comp : n list;
                          dch_ext : slice option }

type dTLSBody =
| DHelloRequest
| DClientHello of dTLSClientHelloC
| DHelloVerifyRequest of n * slice
| DServerHello of serverHelloC
| DNewSessionTicket of n * slice
| DHelloRetryRequest of helloRetryC
| DCertificate of slice list
| DServerKeyExchange of slice
| DCertificateRequest of certRequestC
| DServerDone of slice
| DCertificateVerify of slice
| DClientKeyExchange of clientKeyExchangeC
| DFinished of slice
| DCertificateStatus of n * slice
| DNextProtocol of slice * slice
| DFragment of slice

type dTLSMessageHandshake = { dhs_type : n; dhs_length : n; dhs_seq : 
                              n; dhs_frag_off : n; dhs_frag_len : n;
                              dhs_body : dTLSBody }

type dTLSMessage =
| DMHandshake of dTLSMessageHandshake
| DMChangeCipherSpec
| DMAlert of n * n
| DMApplicationData of slice
| DMHeartbeat of n * n * slice

type dTLSPlaintext = { dp_hdr : dTLSRecordHeader; dp_msgs : dTLSMessage list }

val str : string -> byte list

type sx =
| SN of n
| SS of slice
| SB of byte list
| SA of byte list
| SC of byte list * sx list
| SL of sx list

val uint_bytes : uint -> byte list

val dec : n -> byte list

val hexdigit : n -> byte

val hex : byte list -> byte list

val show_pos_p : byte list -> slice -> byte list

val render_p : byte list -> sx -> byte list

val render : sx -> byte list

val c : string -> sx list -> sx

val sopt : ('a1 -> sx) -> 'a1 option -> sx

val slist : ('a1 -> sx) -> 'a1 list -> sx

val ekind_name : ekind -> byte list

val show_at_p : byte list -> slice -> byte list

val show_at : slice -> byte list

val show_res_p : byte list -> ('a1 -> sx) -> 'a1 res -> byte list

val show_res : ('a1 -> sx) -> 'a1 res -> byte list

val sx_hdr : tlsRecordHeader -> sx

val sx_cke : clientKeyExchangeC -> sx

val sx_ch : clientHelloC -> sx

val sx_sh : serverHelloC -> sx

val sx_hrr : helloRetryC -> sx

val sx_cr : certRequestC -> sx

val sx_hs : tlsMessageHandshake -> sx

val sx_msg : tlsMessage -> sx

val sx_plain : tlsPlaintext -> sx

val sx_enc : tlsEncrypted -> sx

val sx_raw : tlsRawRecord -> sx

val sx_ext : tlsExtension -> sx

val sx_dh : serverDHParams -> sx

val sx_ecc : eCParametersContent -> sx

val sx_ecp : eCParameters -> sx

val sx_ecdh : serverECDHParams -> sx

val sx_ds : digitallySigned -> sx

val sx_sct : sCT -> sx

val sx_dhdr : dTLSRecordHeader -> sx

val sx_dbody : dTLSBody -> sx

val sx_dmsg : dTLSMessage -> sx

val sx_dplain : dTLSPlaintext -> sx

val assoc_N : n -> (n * 'a1) list -> 'a1 option

type hs_body_id =
| HB_hello_request
| HB_client_hello
| HB_server_hello
| HB_newsessionticket
| HB_end_of_early_data
| HB_hello_retry_request
| HB_certificate
| HB_serverkeyexchange
| HB_certificaterequest
| HB_serverdone
| HB_certificateverify
| HB_clientkeyexchange
| HB_finished
| HB_certificatestatus
| HB_key_update
| HB_next_protocol

type sh_form =
| ShV12 of bool
| ShV13Draft18

type rec_body_id =
| RB_many1_ccs
| RB_many1_alert
| RB_many1_handshake
| RB_many1_appdata
| RB_heartbeat
| RB_once_appdata
| RB_complete_heartbeat

type dtls_rec_body_id =
| DRB_many1_ccs
| DRB_many1_alert
| DRB_many1_handshake

type dtls_hs_body_id =
| DHB_client_hello
| DHB_hello_verify_request
| DHB_server_hello
| DHB_serverdone
| DHB_clientkeyexchange
| DHB_certificate

type ext_content_id =
| XC_sni
| XC_max_fragment_length
| XC_status_request
| XC_elliptic_curves
| XC_ec_point_formats
| XC_signature_algorithms
| XC_heartbeat
| XC_alpn
| XC_signed_certificate_timestamp
| XC_padding
| XC_encrypt_then_mac
| XC_extended_master_secret
| XC_record_size_limit
| XC_session_ticket
| XC_key_share_old
| XC_pre_shared_key
| XC_early_data
| XC_supported_versions
| XC_cookie
| XC_psk_key_exchange_modes
| XC_oid_filters
| XC_post_handshake_auth
| XC_key_share
| XC_npn
| XC_renegotiation_info
| XC_encrypted_server_name

val hs_table : (n * hs_body_id) list

val sh_versions : (n * sh_form) list

val sh_msg_versions : (n * sh_form) list

val rec_table : (n * rec_body_id) list

val dtls_rec_table : (n * dtls_rec_body_id) list

val dtls_hs_table : (n * dtls_hs_body_id) list

val generic_table : (n * ext_content_id) list

val client_table : (n * ext_content_id) list

val server_table : (n * ext_content_id) list

val grease_mask : n

val grease_val : n

val grease_same_bytes : bool

val tag_sni : n

val tag_max_fragment_length : n

val tag_status_request : n

val tag_elliptic_curves : n

val tag_ec_point_formats : n

val tag_signature_algorithms : n

val tag_heartbeat : n

val tag_encrypt_then_mac : n

val tag_extended_master_secret : n

val tag_session_ticket : n

val tag_key_share : n

val tag_pre_shared_key : n

val tag_early_data : n

val tag_supported_versions : n

val tag_cookie : n

val tag_psk_key_exchange_modes : n

val parse_cipher_suites : n -> n list p

val parse_compressions_algs : n -> n list p

val parse_u16_all : n list p

val parse_tls_versions : n list p

val opt_ext : slice option p

val parse_tls_handshake_client_hello : clientHelloC p

val parse_tls_handshake_msg_client_hello : tlsMessageHandshake p

val parse_certs : slice list p

val parse_tls_server_hello_tlsv12 : bool -> serverHelloC p

val parse_tls_handshake_msg_server_hello_tlsv12 :
  bool -> tlsMessageHandshake p

val parse_tls_handshake_msg_server_hello_tlsv13draft18 : tlsMessageHandshake p

val parse_tls_handshake_server_hello : serverHelloC p

val parse_tls_handshake_msg_server_hello : tlsMessageHandshake p

val parse_tls_handshake_msg_newsessionticket : n -> tlsMessageHandshake p

val parse_tls_handshake_msg_hello_retry_request : tlsMessageHandshake p

val parse_tls_certificate : slice list p

val parse_tls_handshake_msg_certificate : tlsMessageHandshake p

val parse_tls_handshake_msg_serverkeyexchange : n -> tlsMessageHandshake p

val parse_tls_handshake_msg_serverdone : n -> tlsMessageHandshake p

val parse_tls_handshake_msg_certificateverify : n -> tlsMessageHandshake p

val parse_tls_clientkeyexchange : n -> clientKeyExchangeC p

val parse_tls_handshake_msg_clientkeyexchange : n -> tlsMessageHandshake p

val ca_list : slice list p

val parse_certrequest_nosigalg : certRequestC p

val parse_certrequest_full : certRequestC p

val parse_tls_handshake_certificaterequest : certRequestC p

val parse_tls_handshake_msg_certificaterequest : tlsMessageHandshake p

val parse_tls_handshake_msg_finished : n -> tlsMessageHandshake p

val parse_tls_handshake_certificatestatus : (n * slice) p

val parse_tls_handshake_msg_certificatestatus : tlsMessageHandshake p

val parse_tls_handshake_next_protocol : (slice * slice) p

val parse_tls_handshake_msg_next_protocol : tlsMessageHandshake p

val parse_tls_handshake_msg_key_update : tlsMessageHandshake p

val parse_tls_handshake_msg_hello_request : tlsMessageHandshake p

val hs_body : hs_body_id -> n -> tlsMessageHandshake p

val parse_tls_message_handshake : tlsMessage p

val mAX_RECORD_LEN : n

val mAX_RECORD_DATA : n

val dEFRAG_DEBUG_ASSERT : bool

val parse_tls_message_changecipherspec : tlsMessage p

val parse_tls_message_alert : tlsMessage p

val parse_tls_message_applicationdata : tlsMessage p

val parse_tls_message_heartbeat : n -> tlsMessage list p

val parse_tls_record_header : tlsRecordHeader p

val rec_body : rec_body_id -> tlsRecordHeader -> tlsMessage list p

val parse_tls_record_with_header : tlsRecordHeader -> tlsMessage list p

val parse_tls_plaintext : tlsPlaintext p

val parse_tls_encrypted : tlsEncrypted p

val parse_tls_raw_record : tlsRawRecord p

val tls_parser : tlsPlaintext p

val tls_parser_many : tlsPlaintext list p

val parse_tls_extension_sni_hostname : (n * slice) p

val parse_tls_extension_sni_content : tlsExtension p

val parse_tls_extension_max_fragment_length_content : tlsExtension p

val parse_tls_extension_status_request_content : n -> tlsExtension p

val parse_named_groups : n list p

val parse_tls_extension_elliptic_curves_content : tlsExtension p

val parse_tls_extension_ec_point_formats_content : tlsExtension p

val parse_tls_extension_signature_algorithms_content : tlsExtension p

val parse_tls_extension_heartbeat_content : tlsExtension p

val parse_protocol_name : slice p

val parse_tls_extension_alpn_content : tlsExtension p

val parse_tls_extension_padding_content : n -> tlsExtension p

val parse_tls_extension_signed_certificate_timestamp_content : tlsExtension p

val empty_only : n -> tlsExtension -> tlsExtension p

val parse_tls_extension_encrypt_then_mac_content : n -> tlsExtension p

val parse_tls_extension_extended_master_secret_content : n -> tlsExtension p

val parse_tls_extension_post_handshake_auth_content : n -> tlsExtension p

val parse_tls_extension_npn_content : n -> tlsExtension p

val parse_tls_extension_record_size_limit : tlsExtension p

val parse_tls_extension_session_ticket_content : n -> tlsExtension p

val parse_tls_extension_key_share_old_content : n -> tlsExtension p

val parse_tls_extension_key_share_content : n -> tlsExtension p

val parse_tls_extension_pre_shared_key_content : n -> tlsExtension p

val parse_tls_extension_early_data_content : n -> tlsExtension p

val parse_tls_extension_supported_versions_content : n -> tlsExtension p

val parse_tls_extension_cookie_content : n -> tlsExtension p

val parse_tls_extension_psk_key_exchange_modes_content : tlsExtension p

val parse_tls_extension_renegotiation_info_content : tlsExtension p

val parse_tls_extension_encrypted_server_name : tlsExtension p

val parse_tls_oid_filter : (slice * slice) p

val parse_tls_extension_oid_filters : tlsExtension p

val parse_tls_extension_unknown : tlsExtension p

val ext_content : ext_content_id -> n -> tlsExtension p

val grease_test : n -> bool

val dispatch_ext : (n * ext_content_id) list -> tlsExtension p

val parse_tls_extension : tlsExtension p

val parse_tls_client_hello_extension : tlsExtension p

val parse_tls_server_hello_extension : tlsExtension p

val parse_tls_extensions : tlsExtension list p

val parse_tls_client_hello_extensions : tlsExtension list p

val parse_tls_server_hello_extensions : tlsExtension list p

val tagged : n -> 'a1 p -> 'a1 p

val with_len : (n -> tlsExtension p) -> tlsExtension p

val parse_tls_extension_sni : tlsExtension p

val parse_tls_extension_max_fragment_length : tlsExtension p

val parse_tls_extension_status_request : tlsExtension p

val parse_tls_extension_elliptic_curves : tlsExtension p

val parse_tls_extension_ec_point_formats : tlsExtension p

val parse_tls_extension_signature_algorithms : tlsExtension p

val parse_tls_extension_heartbeat : tlsExtension p

val parse_tls_extension_encrypt_then_mac : tlsExtension p

val parse_tls_extension_extended_master_secret : tlsExtension p

val parse_tls_extension_session_ticket : tlsExtension p

val parse_tls_extension_key_share : tlsExtension p

val parse_tls_extension_pre_shared_key : tlsExtension p

val parse_tls_extension_early_data : tlsExtension p

val parse_tls_extension_supported_versions : tlsExtension p

val parse_tls_extension_cookie : tlsExtension p

val parse_tls_extension_psk_key_exchange_modes : tlsExtension p

val parse_dh_params : serverDHParams p

val parse_ec_point : slice p

val parse_ec_curve : (slice * slice) p

val parse_explicit_prime : explicitPrimeC p

val parse_ec_parameters_content : n -> eCParametersContent p

val parse_ec_parameters : eCParameters p

val parse_ecdh_params : serverECDHParams p

val parse_digitally_signed_old : digitallySigned p

val parse_digitally_signed : digitallySigned p

val parse_content_and_signature : 'a1 p -> bool -> ('a1 * digitallySigned) p

val parse_log_id : slice p

val parse_ct_extensions : slice p

val parse_ct_signed_certificate_timestamp_content : sCT p

val parse_ct_signed_certificate_timestamp : sCT p

val parse_ct_signed_certificate_timestamp_list : sCT list p

val parse_dtls_record_header : dTLSRecordHeader p

val parse_dtls_fragment : dTLSBody p

val parse_dtls_client_hello : dTLSBody p

val parse_dtls_hello_verify_request : dTLSBody p

val dtls_hs_body : dtls_hs_body_id -> n -> dTLSBody p

val parse_dtls_message_handshake : dTLSMessage p

val parse_dtls_message_changecipherspec : dTLSMessage p

val parse_dtls_message_alert : dTLSMessage p

val dtls_rec_body : dtls_rec_body_id -> dTLSMessage list p

val parse_dtls_record_with_header : dTLSRecordHeader -> dTLSMessage list p

val parse_dtls_plaintext_record : dTLSPlaintext p

val parse_dtls_plaintext_records : dTLSPlaintext list p

val beq_bytes : byte list -> byte list -> bool

val split_on : byte -> byte list -> byte list list

val digit_val : byte -> n

val parse_dec : byte list -> n

val unhex : byte list -> byte list

val arg : n list -> nat -> n

type entry_fn = n list -> byte list -> byte list

val e : 'a1 p -> ('a1 -> sx) -> entry_fn

val e1 : (n -> 'a1 p) -> ('a1 -> sx) -> entry_fn

val sx_pair_ns : (n * slice) -> sx

val sx_pair_ss : (slice * slice) -> sx

val entries_tls : (string * entry_fn) list

val e3d : (dTLSRecordHeader -> 'a1 p) -> ('a1 -> sx) -> entry_fn

val eb : (bool -> 'a1 p) -> ('a1 -> sx) -> entry_fn

val entries_ext : (string * entry_fn) list

val entries_kx : (string * entry_fn) list

val entries_dtls : (string * entry_fn) list

val rECORD_CAP : n

val hdr_need : n -> n

type framing =
| FrIncomplete of n
| FrTooLarge of slice
| FrOk of tlsRecordHeader * slice * slice

val framing_spec : slice -> framing

val framing_spec_raw : slice -> tlsRawRecord res

val framing_spec_enc : slice -> tlsEncrypted res

val spec_exact : ('a1 -> sx) -> 'a1 res -> byte list

val spec_entries_tls : (string * entry_fn) list

type tlsState =
| SNone
| SClientHello
| SAskResumeSession
| SResumeSession
| SServerHello
| SCertificate
| SCertificateSt
| SServerKeyExchange
| SServerHelloDone
| SClientKeyExchange
| SClientChangeCipherSpec
| SCRCertRequest
| SCRHelloDone
| SCRCert
| SCRClientKeyExchange
| SCRCertVerify
| SNoCertSKE
| SNoCertHelloDone
| SNoCertCKE
| SPskHelloDone
| SPskCKE
| SSessionEncrypted
| SAlert
| SFinished
| SInvalid

type hs_kind =
| KHelloRequest
| KClientHello
| KServerHello
| KServerHelloV13Draft18
| KNewSessionTicket
| KEndOfEarlyData
| KHelloRetryRequest
| KCertificate
| KServerKeyExchange
| KCertificateRequest
| KServerDone
| KCertificateVerify
| KClientKeyExchange
| KFinished
| KCertificateStatus
| KNextProtocol
| KKeyUpdate

type spat =
| SP_any
| SP_bind
| SP_is of tlsState

type hpat =
| HP_any
| HP_is of hs_kind

type dpat =
| DP_any
| DP_is of bool

type mpat =
| MP_any
| MP_handshake
| MP_ccs
| MP_alert
| MP_appdata
| MP_heartbeat

type hrhs =
| R_ok of tlsState
| R_same
| R_invalid
| R_sid_split of tlsState * tlsState

type orhs =
| O_ok of tlsState
| O_same
| O_invalid
| O_delegate
| O_alert_split of tlsState

val all_states : tlsState list

val all_hs_kinds : hs_kind list

val tlsState_beq : tlsState -> tlsState -> bool

val hs_kind_beq : hs_kind -> hs_kind -> bool

val hs_arms : (((spat * hpat) * dpat) * hrhs) list

val outer_arms : (((spat * mpat) * dpat) * orhs) list

val alert_keep_severity : n

type mkind =
| MkHs of hs_kind * bool
| MkCcs
| MkAlert of n * n
| MkAppData
| MkHeartbeat

type akind =
| AHs of hs_kind * bool
| ACcs
| AAlert of bool
| AAppData
| AHeartbeat

val abs_kind : n -> mkind -> akind

val spat_m : spat -> tlsState -> bool

val dpat_m : dpat -> bool -> bool

val hpat_m : hpat -> hs_kind -> bool

val mpat_m : mpat -> akind -> bool

val hs_first :
  (((spat * hpat) * dpat) * hrhs) list -> tlsState -> hs_kind -> bool -> bool
  -> tlsState option

val tls_state_transition_handshake :
  tlsState -> hs_kind -> bool -> bool -> tlsState option

val outer_first :
  (((spat * mpat) * dpat) * orhs) list -> tlsState -> akind -> bool ->
  tlsState option

val transition_a : tlsState -> akind -> bool -> tlsState option

val tls_state_transition : tlsState -> mkind -> bool -> tlsState option

val state_name : tlsState -> string

val parse_msg_tok : byte list -> mkind * bool

val run_states_line :
  (tlsState -> mkind -> bool -> tlsState option) -> byte list list -> byte
  list

type who =
| C
| S0
| AnySide

type stepmsg =
| HsM of hs_kind
| ChNoSid
| ChSid
| Ccs

type step = (stepmsg * who) * tlsState

type flow = tlsState * step list

val flows : flow list

val path_edges :
  tlsState -> step list -> (((tlsState * stepmsg) * who) * tlsState) list

val edges : (((tlsState * stepmsg) * who) * tlsState) list

val who_m : who -> bool -> bool

val stepmsg_m : stepmsg -> akind -> bool

val find_edge : tlsState -> akind -> bool -> tlsState option

val spec_a : tlsState -> akind -> bool -> tlsState option

val wARNING : n

val spec_transition : tlsState -> mkind -> bool -> tlsState option

type nt_mode =
| NtNone
| NtDisplay
| NtDebug

type nt_type = { nt_name : string; nt_mode_of : nt_mode; nt_width : n;
                 nt_derives_debug : bool; nt_consts : (string * n) list }

val nt_TlsRecordType : nt_type

val nt_TlsHandshakeType : nt_type

val nt_TlsVersion : nt_type

val nt_TlsHeartbeatMessageType : nt_type

val nt_TlsCompressionID : nt_type

val nt_KeyUpdateRequest : nt_type

val nt_TlsAlertSeverity : nt_type

val nt_TlsAlertDescription : nt_type

val nt_TlsExtensionType : nt_type

val nt_PskKeyExchangeMode : nt_type

val nt_SNIType : nt_type

val nt_CertificateStatusType : nt_type

val nt_NamedGroup : nt_type

val nt_ECCurveType : nt_type

val nt_HashAlgorithm : nt_type

val nt_SignAlgorithm : nt_type

val nt_SignatureScheme : nt_type

val nt_CtVersion : nt_type

val nt_all : nt_type list

val key_bits_arms : ((string * n) * n) list

val sdec : n -> string

val hex_digits : nat -> n -> byte list -> byte list

val shex : n -> string

val first_name : n -> (string * n) list -> string option

val fallback : nt_type -> n -> string

val display : nt_type -> n -> string

val display_impl : nt_type -> n -> string option

val debug_impl : nt_type -> n -> string option

val sig_is_reserved : n -> bool

val sig_hash_alg : n -> n

val sig_sign_alg : n -> n

val key_bits_in : n -> ((string * n) * n) list -> n option

val key_bits : n -> n option

val find_nt : string -> nt_type list -> nt_type option

val iana_TlsRecordType : (string * n) list

val iana_TlsHandshakeType : (string * n) list

val iana_TlsVersion : (string * n) list

val iana_TlsHeartbeatMessageType : (string * n) list

val iana_TlsCompressionID : (string * n) list

val iana_KeyUpdateRequest : (string * n) list

val iana_TlsAlertSeverity : (string * n) list

val iana_TlsAlertDescription : (string * n) list

val iana_TlsExtensionType : (string * n) list

val iana_PskKeyExchangeMode : (string * n) list

val iana_SNIType : (string * n) list

val iana_CertificateStatusType : (string * n) list

val iana_NamedGroup : (string * n) list

val iana_ECCurveType : (string * n) list

val iana_HashAlgorithm : (string * n) list

val iana_SignAlgorithm : (string * n) list

val iana_SignatureScheme : (string * n) list

val iana_CtVersion : (string * n) list

val iana_all : (string * (string * n) list) list

val lookup_name : n -> (string * n) list -> string option

val iana_of : string -> (string * (string * n) list) list -> (string * n) list

val is_digit : ascii -> bool

val leading_number : string -> n option -> n option

val strip_prefix : string -> string -> string option

val curve_bits : string -> n option

type tlsCipherKx =
| KxNull
| KxPsk
| KxKrb5
| KxSrp
| KxRsa
| KxDh
| KxDhe
| KxEcdh
| KxEcdhe
| KxAecdh
| KxEccpwd
| KxTls13

type tlsCipherAu =
| AuNull
| AuPsk
| AuKrb5
| AuSrp
| AuSrp_Dss
| AuSrp_Rsa
| AuDss
| AuRsa
| AuDhe
| AuEcdsa
| AuEccpwd
| AuTls13

type tlsCipherEnc =
| EncNull
| EncDes
| EncTripleDes
| EncRc2
| EncRc4
| EncAria
| EncIdea
| EncSeed
| EncAes
| EncCamellia
| EncChacha20_Poly1305
| EncSm4
| EncAegis

type tlsCipherEncMode =
| ModeNull
| ModeCbc
| ModeCcm
| ModeGcm

type tlsCipherMac =
| MacNull
| MacHmacMd5
| MacHmacSha1
| MacHmacSha256
| MacHmacSha384
| MacHmacSha512
| MacAead

type tlsPRF =
| PrfDefault
| PrfNull
| PrfMd5AndSha1
| PrfSha1
| PrfSha256
| PrfSha384
| PrfSha512
| PrfSm3

type cipher_row = { c_id : n; c_name : string; c_kx : tlsCipherKx;
                    c_au : tlsCipherAu; c_enc : tlsCipherEnc;
                    c_mode : tlsCipherEncMode; c_enc_size : n;
                    c_mac : tlsCipherMac; c_mac_size : n; c_prf : tlsPRF;
                    c_impl_key_size : n; c_impl_block_size : n;
                    c_impl_mac_length : n }

val impl_rows : cipher_row list

val impl_values_order : n list

val find_id : n -> cipher_row list -> cipher_row option

val from_id : n -> cipher_row option

val values : cipher_row list

val from_name : string -> cipher_row option

val enc_key_size : cipher_row -> n

val enc_block_size : cipher_row -> n

val mac_length : cipher_row -> n

val txt_rows : string list list

val hexval : ascii -> n option

val parse_hex : string -> n -> n option

val parse_decs : string -> n -> n option

val nonempty : string -> bool

val assoc_s : string -> (string * 'a1) list -> 'a1 option

val kx_tokens : (string * tlsCipherKx) list

val au_tokens : (string * tlsCipherAu) list

val enc_tokens : (string * tlsCipherEnc) list

val mode_tokens : (string * tlsCipherEncMode) list

val mac_tokens : (string * tlsCipherMac) list

val prf_tokens : (string * tlsPRF) list

val interp_row : string list -> cipher_row option

val interp_all : string list list -> cipher_row list option

val block_spec : tlsCipherEnc -> n

val iana2026 : cipher_row list

val qs : string option -> byte list

val show_bool : bool -> byte list

val show_optN : n option -> byte list

val run_nt_line : byte list list -> byte list

val spec_nt_line : byte list list -> byte list

val run_sig_line : byte list list -> byte list

val spec_sig_line : byte list list -> byte list

val run_keybits_line : byte list list -> byte list

val spec_keybits_line : byte list list -> byte list

val run_from_name_line : byte list list -> byte list

val spec_from_name_line : byte list list -> byte list

val kx_name : tlsCipherKx -> string

val au_name : tlsCipherAu -> string

val enc_name : tlsCipherEnc -> string

val mode_name : tlsCipherEncMode -> string

val mac_name : tlsCipherMac -> string

val prf_name : tlsPRF -> string

val show_row : cipher_row -> n -> n -> n -> byte list

val run_cipher_line : byte list list -> byte list

val spec_sizes : cipher_row -> byte list

val spec_cipher_line : byte list list -> byte list

type defrag_state = { d_buf : byte list; d_cur : n option }

val d_init : defrag_state

val defrag_in_progress : defrag_state -> bool

type dop =
| OpParse of tlsRecordHeader * byte list
| OpNoCopy of tlsRecordHeader * byte list
| OpReset

type region =
| Caller
| Buffer

type dout = region * tlsMessage list res

val empty_in : slice

val is_complete_err : 'a1 res -> bool

val map_complete : 'a1 res -> 'a1 res

val nocopy :
  defrag_state -> tlsRecordHeader -> byte list -> defrag_state * dout

val parse_record :
  bool -> defrag_state -> tlsRecordHeader -> byte list -> defrag_state * dout

val step0 : bool -> defrag_state -> dop -> defrag_state * dout option

val is_panic : dout option -> bool

val run_ops :
  bool -> defrag_state -> dop list -> (dout option * defrag_state) list

val parse_dop : byte list -> dop

val show_dout : dout option -> byte list

val run_defrag_line : bool -> byte list list -> byte list

val ser_ccs_byte : n

val ser_ty_clienthello : n

val ser_ty_serverhello : n

val ser_ty_serverhello13 : n

val ser_ty_cke_unknown : n

val ser_ty_cke_dh : n

val ser_ty_cke_ecdh : n

val ser_ty_hellorequest : n

val ser_ty_finished : n

val ser_tag_sni : n

val ser_tag_mfl : n

val ser_tag_groups : n

type ser =
| SerOk of byte list
| SerNYI
| SerPanic

val sbind : ser -> (byte list -> ser) -> ser

val scat : ser -> ser -> ser

val sall : ser list -> ser

val length_be_u16 : ser -> ser

val length_be_u24 : ser -> ser

val tagged_extension : n -> ser -> ser

val gen_tls_ext_sni_hostname : (n * slice) -> ser

val gen_tls_extension : tlsExtension -> ser

val gen_tls_extensions : tlsExtension list -> ser

val gen_tls_sessionid : slice option -> byte list

val maybe_extensions : slice option -> byte list

val gen_tls_clienthello : clientHelloC -> ser

val gen_tls_serverhello : serverHelloC -> ser

val gen_tls_serverhellodraft18 : serverHello13C -> ser

val gen_tls_clientkeyexchange : clientKeyExchangeC -> ser

val gen_tls_messagehandshake : tlsMessageHandshake -> ser

val gen_tls_message : tlsMessage -> ser

val gen_tls_plaintext : tlsPlaintext -> ser

val vec8 : byte list -> byte list

val vec16 : byte list -> byte list

val vec24 : byte list -> byte list

val cat : ('a1 -> byte list) -> 'a1 list -> byte list

val enc_sid : slice option -> byte list

val enc_optext : slice option -> byte list

val enc_client_hello : clientHelloC -> byte list

val enc_server_hello : serverHelloC -> byte list

val enc_cert_request : certRequestC -> byte list

val hs_type : tlsMessageHandshake -> n

val enc_hs_body : tlsMessageHandshake -> byte list

val enc_handshake : tlsMessageHandshake -> byte list

val enc_msg : tlsMessage -> byte list

val enc_record : n -> n -> byte list -> byte list

val iana_type : tlsExtension -> n

val enc_ext_content : tlsExtension -> byte list

val enc_ext : tlsExtension -> byte list

val tok_hex : byte list -> byte list

val tok_optslice : byte list -> slice option

val tok_nums : byte list -> n list

val f : byte list list -> nat -> byte list

val read_msg : byte list -> tlsMessage

val read_ext : byte list -> tlsExtension

val show_ser :
  ser -> (byte list -> byte list) -> (byte list -> ser) -> byte list

val run_ser_line : byte list list -> byte list

val norm_ext_s : slice option -> slice option

val norm_hs_s : tlsMessageHandshake -> tlsMessageHandshake

val norm_msg_s : tlsMessage -> tlsMessage

val sup_msg : tlsMessage -> bool

val enc_msg_ser : tlsMessage -> byte list

val spec_out : byte list -> byte list -> byte list

val spec_ser_line : byte list list -> byte list

type rand_time_form =
| RtWholeSlice
| RtFirstFour

val rand_time_src : rand_time_form

val rand_time : slice -> n

val rand_bytes : slice -> slice

val cipher_suites : n list -> n option list

val get_cipher : n -> n option

val show_optid : n option -> sx

val show_ch :
  n -> slice -> slice option -> n list -> n list -> slice option -> byte list

val show_sh : serverHelloC -> byte list

val run_hello_line : byte list list -> byte list

val spec_rand_time : slice -> n

val spec_rand_bytes : slice -> slice

val spec_suite : n -> n option

val spec_ch :
  n -> slice -> slice option -> n list -> n list -> slice option -> byte list

val spec_sh : serverHelloC -> byte list

val spec_hello_line : byte list list -> byte list

val ext_type_arms : (string * string option) list

val variant_name : tlsExtension -> string

val assoc_str : string -> (string * 'a1) list -> 'a1 option

val bound_type : tlsExtension -> n option

val ext_type_of : tlsExtension -> n option

val run_exttype_line : byte list list -> byte list

val spec_exttype_line : byte list list -> byte list

val all_entries : (string * entry_fn) list

val find_entry : byte list -> (string * entry_fn) list -> entry_fn option

val split_last : 'a1 list -> 'a1 list * 'a1 option

val run_line : byte list -> byte list

val entry_names : byte list list

type 'a g = n -> 'a * n

val gret : 'a1 -> 'a1 g

val gbind : 'a1 g -> ('a1 -> 'a2 g) -> 'a2 g

val lcg : n -> n

val rnd : n -> n g

val gbool : bool g

val gbytes : n -> byte list g

val glist : nat -> 'a1 g -> 'a1 list g

val oneof : 'a1 g -> 'a1 g list -> 'a1 g

val pick_w : 'a1 g -> (n * 'a1 g) list -> n -> 'a1 g

val freq : 'a1 g -> (n * 'a1 g) list -> 'a1 g

val elem : n -> n list -> n g

val gsize : n -> n g

val gsmall : n -> n g

val gint : n -> n g

val gslice : n -> slice g

val gopt : 'a1 g -> 'a1 option g

val hrr_magic : byte list

val downgrade_sentinel : n -> byte list

val grandom32 : slice g

val gsid : slice option g

val gu16list : n -> n list g

val gu8list : n -> n list g

val gblob : n -> slice g

val gsmallblob : slice g

val gext : slice option g

val gversion : n g

val gclient_hello : clientHelloC g

val gserver_hello : serverHelloC g

val gcert_request : certRequestC g

val ghandshake : tlsMessageHandshake g

val gpayload : ((n * tlsMessage list) * byte list) g

val line : string -> n list -> byte list -> byte list

type case = byte list * byte list

val mk_case :
  string -> n list -> byte list -> ('a1 -> sx) -> (byte list * 'a1) option ->
  case

val gsuffix : byte list g

val gcase_record : case list g

val gcase_opaque : case list g

val gcase_toolarge : case list g

val gcase_handshake : case list g

val gmany : nat -> case list g -> case list g

val gcase_message : case list g

val grecord : (byte list * tlsPlaintext) g

val gcase_multi : case list g

val gcase_hsbody : case list g

val families_tls : (string * case list g) list

val enc_dh : serverDHParams -> byte list

val enc_explicit_prime : explicitPrimeC -> byte list

val enc_ecparams : eCParameters -> byte list

val enc_ecdh : serverECDHParams -> byte list

val enc_signed : digitallySigned -> byte list

val enc_sct_body : sCT -> byte list

val enc_sct : sCT -> byte list

val enc_sct_list : sCT list -> byte list

val gb8 : slice g

val gb16 : slice g

val gdh : serverDHParams g

val gep : explicitPrimeC g

val gecparams : eCParameters g

val gecdh : serverECDHParams g

val gsigned : bool -> digitallySigned g

val gsct : sCT g

val gcase_kx : case list g

val gcase_ct : case list g

val families_kx : (string * case list g) list

val gs8 : slice g

val gs16 : slice g

val grease_vals : n list

val known_types : n list

val is_known_or_grease : n -> bool

val gunknown_type : n g

val gext0 : tlsExtension g

val in_table : n -> n list -> bool

val client_keys : n list

val server_keys : n list

val via : n list -> tlsExtension -> tlsExtension

val tag_entry : tlsExtension -> string option

val gcase_ext : case list g

val gcase_ext_wrongtag : case list g

val gcase_extlist : case list g

val families_ext : (string * case list g) list

val enc_dtls_hdr : dTLSRecordHeader -> byte list

val enc_dtls_record : n -> n -> n -> n -> byte list -> byte list

val enc_dtls_client_hello : dTLSClientHelloC -> byte list

val enc_dtls_body : dTLSBody -> byte list

val enc_dtls_hs : n -> n -> n -> n -> byte list -> byte list

val gbits : n -> n g

val gdversion : n g

val gdch : dTLSClientHelloC g

val gdbody : dTLSBody g

val dbody_ty : dTLSBody -> n

val gdmsg : (byte list * dTLSMessage) g

val gdpayload : (n * (byte list * dTLSMessage) list) g

val gdrecord : (byte list * dTLSPlaintext) g

val gcase_dtls : case list g

val gcase_dtls_multi : case list g

val families_dtls : (string * case list g) list

val all_families : (string * case list g) list

val find_family :
  byte list -> (string * case list g) list -> case list g option

val gen_lines : byte list -> n -> n -> byte list list

val family_names : byte list list
