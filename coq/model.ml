
type __ = Obj.t

(** val negb : bool -> bool **)

let negb = function
| true -> false
| false -> true

type nat =
| O
| S of nat

type ('a, 'b) sum =
| Inl of 'a
| Inr of 'b

(** val fst : ('a1 * 'a2) -> 'a1 **)

let fst = function
| (x, _) -> x

(** val snd : ('a1 * 'a2) -> 'a2 **)

let snd = function
| (_, y) -> y

(** val app : 'a1 list -> 'a1 list -> 'a1 list **)

let rec app l m =
  match l with
  | [] -> m
  | a :: l1 -> a :: (app l1 m)

type comparison =
| Eq
| Lt
| Gt

type uint =
| Nil
| D0 of uint
| D1 of uint
| D2 of uint
| D3 of uint
| D4 of uint
| D5 of uint
| D6 of uint
| D7 of uint
| D8 of uint
| D9 of uint

(** val revapp : uint -> uint -> uint **)

let rec revapp d d' =
  match d with
  | Nil -> d'
  | D0 d0 -> revapp d0 (D0 d')
  | D1 d0 -> revapp d0 (D1 d')
  | D2 d0 -> revapp d0 (D2 d')
  | D3 d0 -> revapp d0 (D3 d')
  | D4 d0 -> revapp d0 (D4 d')
  | D5 d0 -> revapp d0 (D5 d')
  | D6 d0 -> revapp d0 (D6 d')
  | D7 d0 -> revapp d0 (D7 d')
  | D8 d0 -> revapp d0 (D8 d')
  | D9 d0 -> revapp d0 (D9 d')

(** val rev : uint -> uint **)

let rev d =
  revapp d Nil

module Little =
 struct
  (** val double : uint -> uint **)

  let rec double = function
  | Nil -> Nil
  | D0 d0 -> D0 (double d0)
  | D1 d0 -> D2 (double d0)
  | D2 d0 -> D4 (double d0)
  | D3 d0 -> D6 (double d0)
  | D4 d0 -> D8 (double d0)
  | D5 d0 -> D0 (succ_double d0)
  | D6 d0 -> D2 (succ_double d0)
  | D7 d0 -> D4 (succ_double d0)
  | D8 d0 -> D6 (succ_double d0)
  | D9 d0 -> D8 (succ_double d0)

  (** val succ_double : uint -> uint **)

  and succ_double = function
  | Nil -> D1 Nil
  | D0 d0 -> D1 (double d0)
  | D1 d0 -> D3 (double d0)
  | D2 d0 -> D5 (double d0)
  | D3 d0 -> D7 (double d0)
  | D4 d0 -> D9 (double d0)
  | D5 d0 -> D1 (succ_double d0)
  | D6 d0 -> D3 (succ_double d0)
  | D7 d0 -> D5 (succ_double d0)
  | D8 d0 -> D7 (succ_double d0)
  | D9 d0 -> D9 (succ_double d0)
 end

module Coq__1 = struct
 (** val add : nat -> nat -> nat **)
 let rec add n0 m =
   match n0 with
   | O -> m
   | S p0 -> S (add p0 m)
end
include Coq__1

type byte =
| X00
| X01
| X02
| X03
| X04
| X05
| X06
| X07
| X08
| X09
| X0a
| X0b
| X0c
| X0d
| X0e
| X0f
| X10
| X11
| X12
| X13
| X14
| X15
| X16
| X17
| X18
| X19
| X1a
| X1b
| X1c
| X1d
| X1e
| X1f
| X20
| X21
| X22
| X23
| X24
| X25
| X26
| X27
| X28
| X29
| X2a
| X2b
| X2c
| X2d
| X2e
| X2f
| X30
| X31
| X32
| X33
| X34
| X35
| X36
| X37
| X38
| X39
| X3a
| X3b
| X3c
| X3d
| X3e
| X3f
| X40
| X41
| X42
| X43
| X44
| X45
| X46
| X47
| X48
| X49
| X4a
| X4b
| X4c
| X4d
| X4e
| X4f
| X50
| X51
| X52
| X53
| X54
| X55
| X56
| X57
| X58
| X59
| X5a
| X5b
| X5c
| X5d
| X5e
| X5f
| X60
| X61
| X62
| X63
| X64
| X65
| X66
| X67
| X68
| X69
| X6a
| X6b
| X6c
| X6d
| X6e
| X6f
| X70
| X71
| X72
| X73
| X74
| X75
| X76
| X77
| X78
| X79
| X7a
| X7b
| X7c
| X7d
| X7e
| X7f
| X80
| X81
| X82
| X83
| X84
| X85
| X86
| X87
| X88
| X89
| X8a
| X8b
| X8c
| X8d
| X8e
| X8f
| X90
| X91
| X92
| X93
| X94
| X95
| X96
| X97
| X98
| X99
| X9a
| X9b
| X9c
| X9d
| X9e
| X9f
| Xa0
| Xa1
| Xa2
| Xa3
| Xa4
| Xa5
| Xa6
| Xa7
| Xa8
| Xa9
| Xaa
| Xab
| Xac
| Xad
| Xae
| Xaf
| Xb0
| Xb1
| Xb2
| Xb3
| Xb4
| Xb5
| Xb6
| Xb7
| Xb8
| Xb9
| Xba
| Xbb
| Xbc
| Xbd
| Xbe
| Xbf
| Xc0
| Xc1
| Xc2
| Xc3
| Xc4
| Xc5
| Xc6
| Xc7
| Xc8
| Xc9
| Xca
| Xcb
| Xcc
| Xcd
| Xce
| Xcf
| Xd0
| Xd1
| Xd2
| Xd3
| Xd4
| Xd5
| Xd6
| Xd7
| Xd8
| Xd9
| Xda
| Xdb
| Xdc
| Xdd
| Xde
| Xdf
| Xe0
| Xe1
| Xe2
| Xe3
| Xe4
| Xe5
| Xe6
| Xe7
| Xe8
| Xe9
| Xea
| Xeb
| Xec
| Xed
| Xee
| Xef
| Xf0
| Xf1
| Xf2
| Xf3
| Xf4
| Xf5
| Xf6
| Xf7
| Xf8
| Xf9
| Xfa
| Xfb
| Xfc
| Xfd
| Xfe
| Xff

(** val of_bits :
    (bool * (bool * (bool * (bool * (bool * (bool * (bool * bool))))))) ->
    byte **)

let of_bits = function
| (b0, p0) ->
  if b0
  then let (b1, p1) = p0 in
       if b1
       then let (b2, p2) = p1 in
            if b2
            then let (b3, p3) = p2 in
                 if b3
                 then let (b4, p4) = p3 in
                      if b4
                      then let (b5, p5) = p4 in
                           if b5
                           then let (b6, b7) = p5 in
                                if b6
                                then if b7 then Xff else X7f
                                else if b7 then Xbf else X3f
                           else let (b6, b7) = p5 in
                                if b6
                                then if b7 then Xdf else X5f
                                else if b7 then X9f else X1f
                      else let (b5, p5) = p4 in
                           if b5
                           then let (b6, b7) = p5 in
                                if b6
                                then if b7 then Xef else X6f
                                else if b7 then Xaf else X2f
                           else let (b6, b7) = p5 in
                                if b6
                                then if b7 then Xcf else X4f
                                else if b7 then X8f else X0f
                 else let (b4, p4) = p3 in
                      if b4
                      then let (b5, p5) = p4 in
                           if b5
                           then let (b6, b7) = p5 in
                                if b6
                                then if b7 then Xf7 else X77
                                else if b7 then Xb7 else X37
                           else let (b6, b7) = p5 in
                                if b6
                                then if b7 then Xd7 else X57
                                else if b7 then X97 else X17
                      else let (b5, p5) = p4 in
                           if b5
                           then let (b6, b7) = p5 in
                                if b6
                                then if b7 then Xe7 else X67
                                else if b7 then Xa7 else X27
                           else let (b6, b7) = p5 in
                                if b6
                                then if b7 then Xc7 else X47
                                else if b7 then X87 else X07
            else let (b3, p3) = p2 in
                 if b3
                 then let (b4, p4) = p3 in
                      if b4
                      then let (b5, p5) = p4 in
                           if b5
                           then let (b6, b7) = p5 in
                                if b6
                                then if b7 then Xfb else X7b
                                else if b7 then Xbb else X3b
                           else let (b6, b7) = p5 in
                                if b6
                                then if b7 then Xdb else X5b
                                else if b7 then X9b else X1b
                      else let (b5, p5) = p4 in
                           if b5
                           then let (b6, b7) = p5 in
                                if b6
                                then if b7 then Xeb else X6b
                                else if b7 then Xab else X2b
                           else let (b6, b7) = p5 in
                                if b6
                                then if b7 then Xcb else X4b
                                else if b7 then X8b else X0b
                 else let (b4, p4) = p3 in
                      if b4
                      then let (b5, p5) = p4 in
                           if b5
                           then let (b6, b7) = p5 in
                                if b6
                                then if b7 then Xf3 else X73
                                else if b7 then Xb3 else X33
                           else let (b6, b7) = p5 in
                                if b6
                                then if b7 then Xd3 else X53
                                else if b7 then X93 else X13
                      else let (b5, p5) = p4 in
                           if b5
                           then let (b6, b7) = p5 in
                                if b6
                                then if b7 then Xe3 else X63
                                else if b7 then Xa3 else X23
                           else let (b6, b7) = p5 in
                                if b6
                                then if b7 then Xc3 else X43
                                else if b7 then X83 else X03
       else let (b2, p2) = p1 in
            if b2
            then let (b3, p3) = p2 in
                 if b3
                 then let (b4, p4) = p3 in
                      if b4
                      then let (b5, p5) = p4 in
                           if b5
                           then let (b6, b7) = p5 in
                                if b6
                                then if b7 then Xfd else X7d
                                else if b7 then Xbd else X3d
                           else let (b6, b7) = p5 in
                                if b6
                                then if b7 then Xdd else X5d
                                else if b7 then X9d else X1d
                      else let (b5, p5) = p4 in
                           if b5
                           then let (b6, b7) = p5 in
                                if b6
                                then if b7 then Xed else X6d
                                else if b7 then Xad else X2d
                           else let (b6, b7) = p5 in
                                if b6
                                then if b7 then Xcd else X4d
                                else if b7 then X8d else X0d
                 else let (b4, p4) = p3 in
                      if b4
                      then let (b5, p5) = p4 in
                           if b5
                           then let (b6, b7) = p5 in
                                if b6
                                then if b7 then Xf5 else X75
                                else if b7 then Xb5 else X35
                           else let (b6, b7) = p5 in
                                if b6
                                then if b7 then Xd5 else X55
                                else if b7 then X95 else X15
                      else let (b5, p5) = p4 in
                           if b5
                           then let (b6, b7) = p5 in
                                if b6
                                then if b7 then Xe5 else X65
                                else if b7 then Xa5 else X25
                           else let (b6, b7) = p5 in
                                if b6
                                then if b7 then Xc5 else X45
                                else if b7 then X85 else X05
            else let (b3, p3) = p2 in
                 if b3
                 then let (b4, p4) = p3 in
                      if b4
                      then let (b5, p5) = p4 in
                           if b5
                           then let (b6, b7) = p5 in
                                if b6
                                then if b7 then Xf9 else X79
                                else if b7 then Xb9 else X39
                           else let (b6, b7) = p5 in
                                if b6
                                then if b7 then Xd9 else X59
                                else if b7 then X99 else X19
                      else let (b5, p5) = p4 in
                           if b5
                           then let (b6, b7) = p5 in
                                if b6
                                then if b7 then Xe9 else X69
                                else if b7 then Xa9 else X29
                           else let (b6, b7) = p5 in
                                if b6
                                then if b7 then Xc9 else X49
                                else if b7 then X89 else X09
                 else let (b4, p4) = p3 in
                      if b4
                      then let (b5, p5) = p4 in
                           if b5
                           then let (b6, b7) = p5 in
                                if b6
                                then if b7 then Xf1 else X71
                                else if b7 then Xb1 else X31
                           else let (b6, b7) = p5 in
                                if b6
                                then if b7 then Xd1 else X51
                                else if b7 then X91 else X11
                      else let (b5, p5) = p4 in
                           if b5
                           then let (b6, b7) = p5 in
                                if b6
                                then if b7 then Xe1 else X61
                                else if b7 then Xa1 else X21
                           else let (b6, b7) = p5 in
                                if b6
                                then if b7 then Xc1 else X41
                                else if b7 then X81 else X01
  else let (b1, p1) = p0 in
       if b1
       then let (b2, p2) = p1 in
            if b2
            then let (b3, p3) = p2 in
                 if b3
                 then let (b4, p4) = p3 in
                      if b4
                      then let (b5, p5) = p4 in
                           if b5
                           then let (b6, b7) = p5 in
                                if b6
                                then if b7 then Xfe else X7e
                                else if b7 then Xbe else X3e
                           else let (b6, b7) = p5 in
                                if b6
                                then if b7 then Xde else X5e
                                else if b7 then X9e else X1e
                      else let (b5, p5) = p4 in
                           if b5
                           then let (b6, b7) = p5 in
                                if b6
                                then if b7 then Xee else X6e
                                else if b7 then Xae else X2e
                           else let (b6, b7) = p5 in
                                if b6
                                then if b7 then Xce else X4e
                                else if b7 then X8e else X0e
                 else let (b4, p4) = p3 in
                      if b4
                      then let (b5, p5) = p4 in
                           if b5
                           then let (b6, b7) = p5 in
                                if b6
                                then if b7 then Xf6 else X76
                                else if b7 then Xb6 else X36
                           else let (b6, b7) = p5 in
                                if b6
                                then if b7 then Xd6 else X56
                                else if b7 then X96 else X16
                      else let (b5, p5) = p4 in
                           if b5
                           then let (b6, b7) = p5 in
                                if b6
                                then if b7 then Xe6 else X66
                                else if b7 then Xa6 else X26
                           else let (b6, b7) = p5 in
                                if b6
                                then if b7 then Xc6 else X46
                                else if b7 then X86 else X06
            else let (b3, p3) = p2 in
                 if b3
                 then let (b4, p4) = p3 in
                      if b4
                      then let (b5, p5) = p4 in
                           if b5
                           then let (b6, b7) = p5 in
                                if b6
                                then if b7 then Xfa else X7a
                                else if b7 then Xba else X3a
                           else let (b6, b7) = p5 in
                                if b6
                                then if b7 then Xda else X5a
                                else if b7 then X9a else X1a
                      else let (b5, p5) = p4 in
                           if b5
                           then let (b6, b7) = p5 in
                                if b6
                                then if b7 then Xea else X6a
                                else if b7 then Xaa else X2a
                           else let (b6, b7) = p5 in
                                if b6
                                then if b7 then Xca else X4a
                                else if b7 then X8a else X0a
                 else let (b4, p4) = p3 in
                      if b4
                      then let (b5, p5) = p4 in
                           if b5
                           then let (b6, b7) = p5 in
                                if b6
                                then if b7 then Xf2 else X72
                                else if b7 then Xb2 else X32
                           else let (b6, b7) = p5 in
                                if b6
                                then if b7 then Xd2 else X52
                                else if b7 then X92 else X12
                      else let (b5, p5) = p4 in
                           if b5
                           then let (b6, b7) = p5 in
                                if b6
                                then if b7 then Xe2 else X62
                                else if b7 then Xa2 else X22
                           else let (b6, b7) = p5 in
                                if b6
                                then if b7 then Xc2 else X42
                                else if b7 then X82 else X02
       else let (b2, p2) = p1 in
            if b2
            then let (b3, p3) = p2 in
                 if b3
                 then let (b4, p4) = p3 in
                      if b4
                      then let (b5, p5) = p4 in
                           if b5
                           then let (b6, b7) = p5 in
                                if b6
                                then if b7 then Xfc else X7c
                                else if b7 then Xbc else X3c
                           else let (b6, b7) = p5 in
                                if b6
                                then if b7 then Xdc else X5c
                                else if b7 then X9c else X1c
                      else let (b5, p5) = p4 in
                           if b5
                           then let (b6, b7) = p5 in
                                if b6
                                then if b7 then Xec else X6c
                                else if b7 then Xac else X2c
                           else let (b6, b7) = p5 in
                                if b6
                                then if b7 then Xcc else X4c
                                else if b7 then X8c else X0c
                 else let (b4, p4) = p3 in
                      if b4
                      then let (b5, p5) = p4 in
                           if b5
                           then let (b6, b7) = p5 in
                                if b6
                                then if b7 then Xf4 else X74
                                else if b7 then Xb4 else X34
                           else let (b6, b7) = p5 in
                                if b6
                                then if b7 then Xd4 else X54
                                else if b7 then X94 else X14
                      else let (b5, p5) = p4 in
                           if b5
                           then let (b6, b7) = p5 in
                                if b6
                                then if b7 then Xe4 else X64
                                else if b7 then Xa4 else X24
                           else let (b6, b7) = p5 in
                                if b6
                                then if b7 then Xc4 else X44
                                else if b7 then X84 else X04
            else let (b3, p3) = p2 in
                 if b3
                 then let (b4, p4) = p3 in
                      if b4
                      then let (b5, p5) = p4 in
                           if b5
                           then let (b6, b7) = p5 in
                                if b6
                                then if b7 then Xf8 else X78
                                else if b7 then Xb8 else X38
                           else let (b6, b7) = p5 in
                                if b6
                                then if b7 then Xd8 else X58
                                else if b7 then X98 else X18
                      else let (b5, p5) = p4 in
                           if b5
                           then let (b6, b7) = p5 in
                                if b6
                                then if b7 then Xe8 else X68
                                else if b7 then Xa8 else X28
                           else let (b6, b7) = p5 in
                                if b6
                                then if b7 then Xc8 else X48
                                else if b7 then X88 else X08
                 else let (b4, p4) = p3 in
                      if b4
                      then let (b5, p5) = p4 in
                           if b5
                           then let (b6, b7) = p5 in
                                if b6
                                then if b7 then Xf0 else X70
                                else if b7 then Xb0 else X30
                           else let (b6, b7) = p5 in
                                if b6
                                then if b7 then Xd0 else X50
                                else if b7 then X90 else X10
                      else let (b5, p5) = p4 in
                           if b5
                           then let (b6, b7) = p5 in
                                if b6
                                then if b7 then Xe0 else X60
                                else if b7 then Xa0 else X20
                           else let (b6, b7) = p5 in
                                if b6
                                then if b7 then Xc0 else X40
                                else if b7 then X80 else X00

(** val to_bits :
    byte -> bool * (bool * (bool * (bool * (bool * (bool * (bool * bool)))))) **)

let to_bits = function
| X00 -> (false, (false, (false, (false, (false, (false, (false, false)))))))
| X01 -> (true, (false, (false, (false, (false, (false, (false, false)))))))
| X02 -> (false, (true, (false, (false, (false, (false, (false, false)))))))
| X03 -> (true, (true, (false, (false, (false, (false, (false, false)))))))
| X04 -> (false, (false, (true, (false, (false, (false, (false, false)))))))
| X05 -> (true, (false, (true, (false, (false, (false, (false, false)))))))
| X06 -> (false, (true, (true, (false, (false, (false, (false, false)))))))
| X07 -> (true, (true, (true, (false, (false, (false, (false, false)))))))
| X08 -> (false, (false, (false, (true, (false, (false, (false, false)))))))
| X09 -> (true, (false, (false, (true, (false, (false, (false, false)))))))
| X0a -> (false, (true, (false, (true, (false, (false, (false, false)))))))
| X0b -> (true, (true, (false, (true, (false, (false, (false, false)))))))
| X0c -> (false, (false, (true, (true, (false, (false, (false, false)))))))
| X0d -> (true, (false, (true, (true, (false, (false, (false, false)))))))
| X0e -> (false, (true, (true, (true, (false, (false, (false, false)))))))
| X0f -> (true, (true, (true, (true, (false, (false, (false, false)))))))
| X10 -> (false, (false, (false, (false, (true, (false, (false, false)))))))
| X11 -> (true, (false, (false, (false, (true, (false, (false, false)))))))
| X12 -> (false, (true, (false, (false, (true, (false, (false, false)))))))
| X13 -> (true, (true, (false, (false, (true, (false, (false, false)))))))
| X14 -> (false, (false, (true, (false, (true, (false, (false, false)))))))
| X15 -> (true, (false, (true, (false, (true, (false, (false, false)))))))
| X16 -> (false, (true, (true, (false, (true, (false, (false, false)))))))
| X17 -> (true, (true, (true, (false, (true, (false, (false, false)))))))
| X18 -> (false, (false, (false, (true, (true, (false, (false, false)))))))
| X19 -> (true, (false, (false, (true, (true, (false, (false, false)))))))
| X1a -> (false, (true, (false, (true, (true, (false, (false, false)))))))
| X1b -> (true, (true, (false, (true, (true, (false, (false, false)))))))
| X1c -> (false, (false, (true, (true, (true, (false, (false, false)))))))
| X1d -> (true, (false, (true, (true, (true, (false, (false, false)))))))
| X1e -> (false, (true, (true, (true, (true, (false, (false, false)))))))
| X1f -> (true, (true, (true, (true, (true, (false, (false, false)))))))
| X20 -> (false, (false, (false, (false, (false, (true, (false, false)))))))
| X21 -> (true, (false, (false, (false, (false, (true, (false, false)))))))
| X22 -> (false, (true, (false, (false, (false, (true, (false, false)))))))
| X23 -> (true, (true, (false, (false, (false, (true, (false, false)))))))
| X24 -> (false, (false, (true, (false, (false, (true, (false, false)))))))
| X25 -> (true, (false, (true, (false, (false, (true, (false, false)))))))
| X26 -> (false, (true, (true, (false, (false, (true, (false, false)))))))
| X27 -> (true, (true, (true, (false, (false, (true, (false, false)))))))
| X28 -> (false, (false, (false, (true, (false, (true, (false, false)))))))
| X29 -> (true, (false, (false, (true, (false, (true, (false, false)))))))
| X2a -> (false, (true, (false, (true, (false, (true, (false, false)))))))
| X2b -> (true, (true, (false, (true, (false, (true, (false, false)))))))
| X2c -> (false, (false, (true, (true, (false, (true, (false, false)))))))
| X2d -> (true, (false, (true, (true, (false, (true, (false, false)))))))
| X2e -> (false, (true, (true, (true, (false, (true, (false, false)))))))
| X2f -> (true, (true, (true, (true, (false, (true, (false, false)))))))
| X30 -> (false, (false, (false, (false, (true, (true, (false, false)))))))
| X31 -> (true, (false, (false, (false, (true, (true, (false, false)))))))
| X32 -> (false, (true, (false, (false, (true, (true, (false, false)))))))
| X33 -> (true, (true, (false, (false, (true, (true, (false, false)))))))
| X34 -> (false, (false, (true, (false, (true, (true, (false, false)))))))
| X35 -> (true, (false, (true, (false, (true, (true, (false, false)))))))
| X36 -> (false, (true, (true, (false, (true, (true, (false, false)))))))
| X37 -> (true, (true, (true, (false, (true, (true, (false, false)))))))
| X38 -> (false, (false, (false, (true, (true, (true, (false, false)))))))
| X39 -> (true, (false, (false, (true, (true, (true, (false, false)))))))
| X3a -> (false, (true, (false, (true, (true, (true, (false, false)))))))
| X3b -> (true, (true, (false, (true, (true, (true, (false, false)))))))
| X3c -> (false, (false, (true, (true, (true, (true, (false, false)))))))
| X3d -> (true, (false, (true, (true, (true, (true, (false, false)))))))
| X3e -> (false, (true, (true, (true, (true, (true, (false, false)))))))
| X3f -> (true, (true, (true, (true, (true, (true, (false, false)))))))
| X40 -> (false, (false, (false, (false, (false, (false, (true, false)))))))
| X41 -> (true, (false, (false, (false, (false, (false, (true, false)))))))
| X42 -> (false, (true, (false, (false, (false, (false, (true, false)))))))
| X43 -> (true, (true, (false, (false, (false, (false, (true, false)))))))
| X44 -> (false, (false, (true, (false, (false, (false, (true, false)))))))
| X45 -> (true, (false, (true, (false, (false, (false, (true, false)))))))
| X46 -> (false, (true, (true, (false, (false, (false, (true, false)))))))
| X47 -> (true, (true, (true, (false, (false, (false, (true, false)))))))
| X48 -> (false, (false, (false, (true, (false, (false, (true, false)))))))
| X49 -> (true, (false, (false, (true, (false, (false, (true, false)))))))
| X4a -> (false, (true, (false, (true, (false, (false, (true, false)))))))
| X4b -> (true, (true, (false, (true, (false, (false, (true, false)))))))
| X4c -> (false, (false, (true, (true, (false, (false, (true, false)))))))
| X4d -> (true, (false, (true, (true, (false, (false, (true, false)))))))
| X4e -> (false, (true, (true, (true, (false, (false, (true, false)))))))
| X4f -> (true, (true, (true, (true, (false, (false, (true, false)))))))
| X50 -> (false, (false, (false, (false, (true, (false, (true, false)))))))
| X51 -> (true, (false, (false, (false, (true, (false, (true, false)))))))
| X52 -> (false, (true, (false, (false, (true, (false, (true, false)))))))
| X53 -> (true, (true, (false, (false, (true, (false, (true, false)))))))
| X54 -> (false, (false, (true, (false, (true, (false, (true, false)))))))
| X55 -> (true, (false, (true, (false, (true, (false, (true, false)))))))
| X56 -> (false, (true, (true, (false, (true, (false, (true, false)))))))
| X57 -> (true, (true, (true, (false, (true, (false, (true, false)))))))
| X58 -> (false, (false, (false, (true, (true, (false, (true, false)))))))
| X59 -> (true, (false, (false, (true, (true, (false, (true, false)))))))
| X5a -> (false, (true, (false, (true, (true, (false, (true, false)))))))
| X5b -> (true, (true, (false, (true, (true, (false, (true, false)))))))
| X5c -> (false, (false, (true, (true, (true, (false, (true, false)))))))
| X5d -> (true, (false, (true, (true, (true, (false, (true, false)))))))
| X5e -> (false, (true, (true, (true, (true, (false, (true, false)))))))
| X5f -> (true, (true, (true, (true, (true, (false, (true, false)))))))
| X60 -> (false, (false, (false, (false, (false, (true, (true, false)))))))
| X61 -> (true, (false, (false, (false, (false, (true, (true, false)))))))
| X62 -> (false, (true, (false, (false, (false, (true, (true, false)))))))
| X63 -> (true, (true, (false, (false, (false, (true, (true, false)))))))
| X64 -> (false, (false, (true, (false, (false, (true, (true, false)))))))
| X65 -> (true, (false, (true, (false, (false, (true, (true, false)))))))
| X66 -> (false, (true, (true, (false, (false, (true, (true, false)))))))
| X67 -> (true, (true, (true, (false, (false, (true, (true, false)))))))
| X68 -> (false, (false, (false, (true, (false, (true, (true, false)))))))
| X69 -> (true, (false, (false, (true, (false, (true, (true, false)))))))
| X6a -> (false, (true, (false, (true, (false, (true, (true, false)))))))
| X6b -> (true, (true, (false, (true, (false, (true, (true, false)))))))
| X6c -> (false, (false, (true, (true, (false, (true, (true, false)))))))
| X6d -> (true, (false, (true, (true, (false, (true, (true, false)))))))
| X6e -> (false, (true, (true, (true, (false, (true, (true, false)))))))
| X6f -> (true, (true, (true, (true, (false, (true, (true, false)))))))
| X70 -> (false, (false, (false, (false, (true, (true, (true, false)))))))
| X71 -> (true, (false, (false, (false, (true, (true, (true, false)))))))
| X72 -> (false, (true, (false, (false, (true, (true, (true, false)))))))
| X73 -> (true, (true, (false, (false, (true, (true, (true, false)))))))
| X74 -> (false, (false, (true, (false, (true, (true, (true, false)))))))
| X75 -> (true, (false, (true, (false, (true, (true, (true, false)))))))
| X76 -> (false, (true, (true, (false, (true, (true, (true, false)))))))
| X77 -> (true, (true, (true, (false, (true, (true, (true, false)))))))
| X78 -> (false, (false, (false, (true, (true, (true, (true, false)))))))
| X79 -> (true, (false, (false, (true, (true, (true, (true, false)))))))
| X7a -> (false, (true, (false, (true, (true, (true, (true, false)))))))
| X7b -> (true, (true, (false, (true, (true, (true, (true, false)))))))
| X7c -> (false, (false, (true, (true, (true, (true, (true, false)))))))
| X7d -> (true, (false, (true, (true, (true, (true, (true, false)))))))
| X7e -> (false, (true, (true, (true, (true, (true, (true, false)))))))
| X7f -> (true, (true, (true, (true, (true, (true, (true, false)))))))
| X80 -> (false, (false, (false, (false, (false, (false, (false, true)))))))
| X81 -> (true, (false, (false, (false, (false, (false, (false, true)))))))
| X82 -> (false, (true, (false, (false, (false, (false, (false, true)))))))
| X83 -> (true, (true, (false, (false, (false, (false, (false, true)))))))
| X84 -> (false, (false, (true, (false, (false, (false, (false, true)))))))
| X85 -> (true, (false, (true, (false, (false, (false, (false, true)))))))
| X86 -> (false, (true, (true, (false, (false, (false, (false, true)))))))
| X87 -> (true, (true, (true, (false, (false, (false, (false, true)))))))
| X88 -> (false, (false, (false, (true, (false, (false, (false, true)))))))
| X89 -> (true, (false, (false, (true, (false, (false, (false, true)))))))
| X8a -> (false, (true, (false, (true, (false, (false, (false, true)))))))
| X8b -> (true, (true, (false, (true, (false, (false, (false, true)))))))
| X8c -> (false, (false, (true, (true, (false, (false, (false, true)))))))
| X8d -> (true, (false, (true, (true, (false, (false, (false, true)))))))
| X8e -> (false, (true, (true, (true, (false, (false, (false, true)))))))
| X8f -> (true, (true, (true, (true, (false, (false, (false, true)))))))
| X90 -> (false, (false, (false, (false, (true, (false, (false, true)))))))
| X91 -> (true, (false, (false, (false, (true, (false, (false, true)))))))
| X92 -> (false, (true, (false, (false, (true, (false, (false, true)))))))
| X93 -> (true, (true, (false, (false, (true, (false, (false, true)))))))
| X94 -> (false, (false, (true, (false, (true, (false, (false, true)))))))
| X95 -> (true, (false, (true, (false, (true, (false, (false, true)))))))
| X96 -> (false, (true, (true, (false, (true, (false, (false, true)))))))
| X97 -> (true, (true, (true, (false, (true, (false, (false, true)))))))
| X98 -> (false, (false, (false, (true, (true, (false, (false, true)))))))
| X99 -> (true, (false, (false, (true, (true, (false, (false, true)))))))
| X9a -> (false, (true, (false, (true, (true, (false, (false, true)))))))
| X9b -> (true, (true, (false, (true, (true, (false, (false, true)))))))
| X9c -> (false, (false, (true, (true, (true, (false, (false, true)))))))
| X9d -> (true, (false, (true, (true, (true, (false, (false, true)))))))
| X9e -> (false, (true, (true, (true, (true, (false, (false, true)))))))
| X9f -> (true, (true, (true, (true, (true, (false, (false, true)))))))
| Xa0 -> (false, (false, (false, (false, (false, (true, (false, true)))))))
| Xa1 -> (true, (false, (false, (false, (false, (true, (false, true)))))))
| Xa2 -> (false, (true, (false, (false, (false, (true, (false, true)))))))
| Xa3 -> (true, (true, (false, (false, (false, (true, (false, true)))))))
| Xa4 -> (false, (false, (true, (false, (false, (true, (false, true)))))))
| Xa5 -> (true, (false, (true, (false, (false, (true, (false, true)))))))
| Xa6 -> (false, (true, (true, (false, (false, (true, (false, true)))))))
| Xa7 -> (true, (true, (true, (false, (false, (true, (false, true)))))))
| Xa8 -> (false, (false, (false, (true, (false, (true, (false, true)))))))
| Xa9 -> (true, (false, (false, (true, (false, (true, (false, true)))))))
| Xaa -> (false, (true, (false, (true, (false, (true, (false, true)))))))
| Xab -> (true, (true, (false, (true, (false, (true, (false, true)))))))
| Xac -> (false, (false, (true, (true, (false, (true, (false, true)))))))
| Xad -> (true, (false, (true, (true, (false, (true, (false, true)))))))
| Xae -> (false, (true, (true, (true, (false, (true, (false, true)))))))
| Xaf -> (true, (true, (true, (true, (false, (true, (false, true)))))))
| Xb0 -> (false, (false, (false, (false, (true, (true, (false, true)))))))
| Xb1 -> (true, (false, (false, (false, (true, (true, (false, true)))))))
| Xb2 -> (false, (true, (false, (false, (true, (true, (false, true)))))))
| Xb3 -> (true, (true, (false, (false, (true, (true, (false, true)))))))
| Xb4 -> (false, (false, (true, (false, (true, (true, (false, true)))))))
| Xb5 -> (true, (false, (true, (false, (true, (true, (false, true)))))))
| Xb6 -> (false, (true, (true, (false, (true, (true, (false, true)))))))
| Xb7 -> (true, (true, (true, (false, (true, (true, (false, true)))))))
| Xb8 -> (false, (false, (false, (true, (true, (true, (false, true)))))))
| Xb9 -> (true, (false, (false, (true, (true, (true, (false, true)))))))
| Xba -> (false, (true, (false, (true, (true, (true, (false, true)))))))
| Xbb -> (true, (true, (false, (true, (true, (true, (false, true)))))))
| Xbc -> (false, (false, (true, (true, (true, (true, (false, true)))))))
| Xbd -> (true, (false, (true, (true, (true, (true, (false, true)))))))
| Xbe -> (false, (true, (true, (true, (true, (true, (false, true)))))))
| Xbf -> (true, (true, (true, (true, (true, (true, (false, true)))))))
| Xc0 -> (false, (false, (false, (false, (false, (false, (true, true)))))))
| Xc1 -> (true, (false, (false, (false, (false, (false, (true, true)))))))
| Xc2 -> (false, (true, (false, (false, (false, (false, (true, true)))))))
| Xc3 -> (true, (true, (false, (false, (false, (false, (true, true)))))))
| Xc4 -> (false, (false, (true, (false, (false, (false, (true, true)))))))
| Xc5 -> (true, (false, (true, (false, (false, (false, (true, true)))))))
| Xc6 -> (false, (true, (true, (false, (false, (false, (true, true)))))))
| Xc7 -> (true, (true, (true, (false, (false, (false, (true, true)))))))
| Xc8 -> (false, (false, (false, (true, (false, (false, (true, true)))))))
| Xc9 -> (true, (false, (false, (true, (false, (false, (true, true)))))))
| Xca -> (false, (true, (false, (true, (false, (false, (true, true)))))))
| Xcb -> (true, (true, (false, (true, (false, (false, (true, true)))))))
| Xcc -> (false, (false, (true, (true, (false, (false, (true, true)))))))
| Xcd -> (true, (false, (true, (true, (false, (false, (true, true)))))))
| Xce -> (false, (true, (true, (true, (false, (false, (true, true)))))))
| Xcf -> (true, (true, (true, (true, (false, (false, (true, true)))))))
| Xd0 -> (false, (false, (false, (false, (true, (false, (true, true)))))))
| Xd1 -> (true, (false, (false, (false, (true, (false, (true, true)))))))
| Xd2 -> (false, (true, (false, (false, (true, (false, (true, true)))))))
| Xd3 -> (true, (true, (false, (false, (true, (false, (true, true)))))))
| Xd4 -> (false, (false, (true, (false, (true, (false, (true, true)))))))
| Xd5 -> (true, (false, (true, (false, (true, (false, (true, true)))))))
| Xd6 -> (false, (true, (true, (false, (true, (false, (true, true)))))))
| Xd7 -> (true, (true, (true, (false, (true, (false, (true, true)))))))
| Xd8 -> (false, (false, (false, (true, (true, (false, (true, true)))))))
| Xd9 -> (true, (false, (false, (true, (true, (false, (true, true)))))))
| Xda -> (false, (true, (false, (true, (true, (false, (true, true)))))))
| Xdb -> (true, (true, (false, (true, (true, (false, (true, true)))))))
| Xdc -> (false, (false, (true, (true, (true, (false, (true, true)))))))
| Xdd -> (true, (false, (true, (true, (true, (false, (true, true)))))))
| Xde -> (false, (true, (true, (true, (true, (false, (true, true)))))))
| Xdf -> (true, (true, (true, (true, (true, (false, (true, true)))))))
| Xe0 -> (false, (false, (false, (false, (false, (true, (true, true)))))))
| Xe1 -> (true, (false, (false, (false, (false, (true, (true, true)))))))
| Xe2 -> (false, (true, (false, (false, (false, (true, (true, true)))))))
| Xe3 -> (true, (true, (false, (false, (false, (true, (true, true)))))))
| Xe4 -> (false, (false, (true, (false, (false, (true, (true, true)))))))
| Xe5 -> (true, (false, (true, (false, (false, (true, (true, true)))))))
| Xe6 -> (false, (true, (true, (false, (false, (true, (true, true)))))))
| Xe7 -> (true, (true, (true, (false, (false, (true, (true, true)))))))
| Xe8 -> (false, (false, (false, (true, (false, (true, (true, true)))))))
| Xe9 -> (true, (false, (false, (true, (false, (true, (true, true)))))))
| Xea -> (false, (true, (false, (true, (false, (true, (true, true)))))))
| Xeb -> (true, (true, (false, (true, (false, (true, (true, true)))))))
| Xec -> (false, (false, (true, (true, (false, (true, (true, true)))))))
| Xed -> (true, (false, (true, (true, (false, (true, (true, true)))))))
| Xee -> (false, (true, (true, (true, (false, (true, (true, true)))))))
| Xef -> (true, (true, (true, (true, (false, (true, (true, true)))))))
| Xf0 -> (false, (false, (false, (false, (true, (true, (true, true)))))))
| Xf1 -> (true, (false, (false, (false, (true, (true, (true, true)))))))
| Xf2 -> (false, (true, (false, (false, (true, (true, (true, true)))))))
| Xf3 -> (true, (true, (false, (false, (true, (true, (true, true)))))))
| Xf4 -> (false, (false, (true, (false, (true, (true, (true, true)))))))
| Xf5 -> (true, (false, (true, (false, (true, (true, (true, true)))))))
| Xf6 -> (false, (true, (true, (false, (true, (true, (true, true)))))))
| Xf7 -> (true, (true, (true, (false, (true, (true, (true, true)))))))
| Xf8 -> (false, (false, (false, (true, (true, (true, (true, true)))))))
| Xf9 -> (true, (false, (false, (true, (true, (true, (true, true)))))))
| Xfa -> (false, (true, (false, (true, (true, (true, (true, true)))))))
| Xfb -> (true, (true, (false, (true, (true, (true, (true, true)))))))
| Xfc -> (false, (false, (true, (true, (true, (true, (true, true)))))))
| Xfd -> (true, (false, (true, (true, (true, (true, (true, true)))))))
| Xfe -> (false, (true, (true, (true, (true, (true, (true, true)))))))
| Xff -> (true, (true, (true, (true, (true, (true, (true, true)))))))

(** val eqb : bool -> bool -> bool **)

let eqb b1 b2 =
  if b1 then b2 else if b2 then false else true

type positive =
| XI of positive
| XO of positive
| XH

type n =
| N0
| Npos of positive

module Pos =
 struct
  type mask =
  | IsNul
  | IsPos of positive
  | IsNeg
 end

module Coq_Pos =
 struct
  (** val succ : positive -> positive **)

  let rec succ = function
  | XI p0 -> XO (succ p0)
  | XO p0 -> XI p0
  | XH -> XO XH

  (** val add : positive -> positive -> positive **)

  let rec add x y =
    match x with
    | XI p0 ->
      (match y with
       | XI q -> XO (add_carry p0 q)
       | XO q -> XI (add p0 q)
       | XH -> XO (succ p0))
    | XO p0 ->
      (match y with
       | XI q -> XI (add p0 q)
       | XO q -> XO (add p0 q)
       | XH -> XI p0)
    | XH -> (match y with
             | XI q -> XO (succ q)
             | XO q -> XI q
             | XH -> XO XH)

  (** val add_carry : positive -> positive -> positive **)

  and add_carry x y =
    match x with
    | XI p0 ->
      (match y with
       | XI q -> XI (add_carry p0 q)
       | XO q -> XO (add_carry p0 q)
       | XH -> XI (succ p0))
    | XO p0 ->
      (match y with
       | XI q -> XO (add_carry p0 q)
       | XO q -> XI (add p0 q)
       | XH -> XO (succ p0))
    | XH ->
      (match y with
       | XI q -> XI (succ q)
       | XO q -> XO (succ q)
       | XH -> XI XH)

  (** val pred_double : positive -> positive **)

  let rec pred_double = function
  | XI p0 -> XI (XO p0)
  | XO p0 -> XI (pred_double p0)
  | XH -> XH

  (** val pred_N : positive -> n **)

  let pred_N = function
  | XI p0 -> Npos (XO p0)
  | XO p0 -> Npos (pred_double p0)
  | XH -> N0

  type mask = Pos.mask =
  | IsNul
  | IsPos of positive
  | IsNeg

  (** val succ_double_mask : mask -> mask **)

  let succ_double_mask = function
  | IsNul -> IsPos XH
  | IsPos p0 -> IsPos (XI p0)
  | IsNeg -> IsNeg

  (** val double_mask : mask -> mask **)

  let double_mask = function
  | IsPos p0 -> IsPos (XO p0)
  | x0 -> x0

  (** val double_pred_mask : positive -> mask **)

  let double_pred_mask = function
  | XI p0 -> IsPos (XO (XO p0))
  | XO p0 -> IsPos (XO (pred_double p0))
  | XH -> IsNul

  (** val sub_mask : positive -> positive -> mask **)

  let rec sub_mask x y =
    match x with
    | XI p0 ->
      (match y with
       | XI q -> double_mask (sub_mask p0 q)
       | XO q -> succ_double_mask (sub_mask p0 q)
       | XH -> IsPos (XO p0))
    | XO p0 ->
      (match y with
       | XI q -> succ_double_mask (sub_mask_carry p0 q)
       | XO q -> double_mask (sub_mask p0 q)
       | XH -> IsPos (pred_double p0))
    | XH -> (match y with
             | XH -> IsNul
             | _ -> IsNeg)

  (** val sub_mask_carry : positive -> positive -> mask **)

  and sub_mask_carry x y =
    match x with
    | XI p0 ->
      (match y with
       | XI q -> succ_double_mask (sub_mask_carry p0 q)
       | XO q -> double_mask (sub_mask p0 q)
       | XH -> IsPos (pred_double p0))
    | XO p0 ->
      (match y with
       | XI q -> double_mask (sub_mask_carry p0 q)
       | XO q -> succ_double_mask (sub_mask_carry p0 q)
       | XH -> double_pred_mask p0)
    | XH -> IsNeg

  (** val mul : positive -> positive -> positive **)

  let rec mul x y =
    match x with
    | XI p0 -> add y (XO (mul p0 y))
    | XO p0 -> XO (mul p0 y)
    | XH -> y

  (** val iter : ('a1 -> 'a1) -> 'a1 -> positive -> 'a1 **)

  let rec iter f x = function
  | XI n' -> f (iter f (iter f x n') n')
  | XO n' -> iter f (iter f x n') n'
  | XH -> f x

  (** val pow : positive -> positive -> positive **)

  let pow x =
    iter (mul x) XH

  (** val compare_cont : comparison -> positive -> positive -> comparison **)

  let rec compare_cont r x y =
    match x with
    | XI p0 ->
      (match y with
       | XI q -> compare_cont r p0 q
       | XO q -> compare_cont Gt p0 q
       | XH -> Gt)
    | XO p0 ->
      (match y with
       | XI q -> compare_cont Lt p0 q
       | XO q -> compare_cont r p0 q
       | XH -> Gt)
    | XH -> (match y with
             | XH -> r
             | _ -> Lt)

  (** val compare : positive -> positive -> comparison **)

  let compare =
    compare_cont Eq

  (** val eqb : positive -> positive -> bool **)

  let rec eqb p0 q =
    match p0 with
    | XI p1 -> (match q with
                | XI q0 -> eqb p1 q0
                | _ -> false)
    | XO p1 -> (match q with
                | XO q0 -> eqb p1 q0
                | _ -> false)
    | XH -> (match q with
             | XH -> true
             | _ -> false)

  (** val coq_Nsucc_double : n -> n **)

  let coq_Nsucc_double = function
  | N0 -> Npos XH
  | Npos p0 -> Npos (XI p0)

  (** val coq_Ndouble : n -> n **)

  let coq_Ndouble = function
  | N0 -> N0
  | Npos p0 -> Npos (XO p0)

  (** val coq_land : positive -> positive -> n **)

  let rec coq_land p0 q =
    match p0 with
    | XI p1 ->
      (match q with
       | XI q0 -> coq_Nsucc_double (coq_land p1 q0)
       | XO q0 -> coq_Ndouble (coq_land p1 q0)
       | XH -> Npos XH)
    | XO p1 ->
      (match q with
       | XI q0 -> coq_Ndouble (coq_land p1 q0)
       | XO q0 -> coq_Ndouble (coq_land p1 q0)
       | XH -> N0)
    | XH -> (match q with
             | XO _ -> N0
             | _ -> Npos XH)

  (** val iter_op : ('a1 -> 'a1 -> 'a1) -> positive -> 'a1 -> 'a1 **)

  let rec iter_op op p0 a =
    match p0 with
    | XI p1 -> op a (iter_op op p1 (op a a))
    | XO p1 -> iter_op op p1 (op a a)
    | XH -> a

  (** val to_nat : positive -> nat **)

  let to_nat x =
    iter_op Coq__1.add x (S O)

  (** val of_succ_nat : nat -> positive **)

  let rec of_succ_nat = function
  | O -> XH
  | S x -> succ (of_succ_nat x)

  (** val to_little_uint : positive -> uint **)

  let rec to_little_uint = function
  | XI p1 -> Little.succ_double (to_little_uint p1)
  | XO p1 -> Little.double (to_little_uint p1)
  | XH -> D1 Nil

  (** val to_uint : positive -> uint **)

  let to_uint p0 =
    rev (to_little_uint p0)
 end

module N =
 struct
  (** val succ_double : n -> n **)

  let succ_double = function
  | N0 -> Npos XH
  | Npos p0 -> Npos (XI p0)

  (** val double : n -> n **)

  let double = function
  | N0 -> N0
  | Npos p0 -> Npos (XO p0)

  (** val succ : n -> n **)

  let succ = function
  | N0 -> Npos XH
  | Npos p0 -> Npos (Coq_Pos.succ p0)

  (** val pred : n -> n **)

  let pred = function
  | N0 -> N0
  | Npos p0 -> Coq_Pos.pred_N p0

  (** val add : n -> n -> n **)

  let add n0 m =
    match n0 with
    | N0 -> m
    | Npos p0 -> (match m with
                  | N0 -> n0
                  | Npos q -> Npos (Coq_Pos.add p0 q))

  (** val sub : n -> n -> n **)

  let sub n0 m =
    match n0 with
    | N0 -> N0
    | Npos n' ->
      (match m with
       | N0 -> n0
       | Npos m' ->
         (match Coq_Pos.sub_mask n' m' with
          | Coq_Pos.IsPos p0 -> Npos p0
          | _ -> N0))

  (** val mul : n -> n -> n **)

  let mul n0 m =
    match n0 with
    | N0 -> N0
    | Npos p0 -> (match m with
                  | N0 -> N0
                  | Npos q -> Npos (Coq_Pos.mul p0 q))

  (** val compare : n -> n -> comparison **)

  let compare n0 m =
    match n0 with
    | N0 -> (match m with
             | N0 -> Eq
             | Npos _ -> Lt)
    | Npos n' -> (match m with
                  | N0 -> Gt
                  | Npos m' -> Coq_Pos.compare n' m')

  (** val eqb : n -> n -> bool **)

  let eqb n0 m =
    match n0 with
    | N0 -> (match m with
             | N0 -> true
             | Npos _ -> false)
    | Npos p0 -> (match m with
                  | N0 -> false
                  | Npos q -> Coq_Pos.eqb p0 q)

  (** val leb : n -> n -> bool **)

  let leb x y =
    match compare x y with
    | Gt -> false
    | _ -> true

  (** val ltb : n -> n -> bool **)

  let ltb x y =
    match compare x y with
    | Lt -> true
    | _ -> false

  (** val min : n -> n -> n **)

  let min n0 n' =
    match compare n0 n' with
    | Gt -> n'
    | _ -> n0

  (** val max : n -> n -> n **)

  let max n0 n' =
    match compare n0 n' with
    | Gt -> n0
    | _ -> n'

  (** val div2 : n -> n **)

  let div2 = function
  | N0 -> N0
  | Npos p0 -> (match p0 with
                | XI p1 -> Npos p1
                | XO p1 -> Npos p1
                | XH -> N0)

  (** val pow : n -> n -> n **)

  let pow n0 = function
  | N0 -> Npos XH
  | Npos p1 -> (match n0 with
                | N0 -> N0
                | Npos q -> Npos (Coq_Pos.pow q p1))

  (** val pos_div_eucl : positive -> n -> n * n **)

  let rec pos_div_eucl a b =
    match a with
    | XI a' ->
      let (q, r) = pos_div_eucl a' b in
      let r' = succ_double r in
      if leb b r' then ((succ_double q), (sub r' b)) else ((double q), r')
    | XO a' ->
      let (q, r) = pos_div_eucl a' b in
      let r' = double r in
      if leb b r' then ((succ_double q), (sub r' b)) else ((double q), r')
    | XH ->
      (match b with
       | N0 -> (N0, (Npos XH))
       | Npos p0 ->
         (match p0 with
          | XH -> ((Npos XH), N0)
          | _ -> (N0, (Npos XH))))

  (** val div_eucl : n -> n -> n * n **)

  let div_eucl a b =
    match a with
    | N0 -> (N0, N0)
    | Npos na -> (match b with
                  | N0 -> (N0, a)
                  | Npos _ -> pos_div_eucl na b)

  (** val div : n -> n -> n **)

  let div a b =
    fst (div_eucl a b)

  (** val modulo : n -> n -> n **)

  let modulo a b =
    snd (div_eucl a b)

  (** val coq_land : n -> n -> n **)

  let coq_land n0 m =
    match n0 with
    | N0 -> N0
    | Npos p0 -> (match m with
                  | N0 -> N0
                  | Npos q -> Coq_Pos.coq_land p0 q)

  (** val shiftr : n -> n -> n **)

  let shiftr a = function
  | N0 -> a
  | Npos p0 -> Coq_Pos.iter div2 a p0

  (** val to_nat : n -> nat **)

  let to_nat = function
  | N0 -> O
  | Npos p0 -> Coq_Pos.to_nat p0

  (** val of_nat : nat -> n **)

  let of_nat = function
  | O -> N0
  | S n' -> Npos (Coq_Pos.of_succ_nat n')

  (** val iter : n -> ('a1 -> 'a1) -> 'a1 -> 'a1 **)

  let iter n0 f x =
    match n0 with
    | N0 -> x
    | Npos p0 -> Coq_Pos.iter f x p0

  (** val to_uint : n -> uint **)

  let to_uint = function
  | N0 -> D0 Nil
  | Npos p0 -> Coq_Pos.to_uint p0
 end

(** val nth : nat -> 'a1 list -> 'a1 -> 'a1 **)

let rec nth n0 l default =
  match n0 with
  | O -> (match l with
          | [] -> default
          | x :: _ -> x)
  | S m -> (match l with
            | [] -> default
            | _ :: t -> nth m t default)

(** val concat : 'a1 list list -> 'a1 list **)

let rec concat = function
| [] -> []
| x :: l0 -> app x (concat l0)

(** val map : ('a1 -> 'a2) -> 'a1 list -> 'a2 list **)

let rec map f = function
| [] -> []
| a :: t -> (f a) :: (map f t)

(** val flat_map : ('a1 -> 'a2 list) -> 'a1 list -> 'a2 list **)

let rec flat_map f = function
| [] -> []
| x :: t -> app (f x) (flat_map f t)

(** val fold_left : ('a1 -> 'a2 -> 'a1) -> 'a2 list -> 'a1 -> 'a1 **)

let rec fold_left f l a0 =
  match l with
  | [] -> a0
  | b :: t -> fold_left f t (f a0 b)

(** val fold_right : ('a2 -> 'a1 -> 'a1) -> 'a1 -> 'a2 list -> 'a1 **)

let rec fold_right f a0 = function
| [] -> a0
| b :: t -> f b (fold_right f a0 t)

(** val find : ('a1 -> bool) -> 'a1 list -> 'a1 option **)

let rec find f = function
| [] -> None
| x :: tl -> if f x then Some x else find f tl

(** val repeat : 'a1 -> nat -> 'a1 list **)

let rec repeat x = function
| O -> []
| S k -> x :: (repeat x k)

(** val eqb0 : byte -> byte -> bool **)

let eqb0 a b =
  let (a0, p0) = to_bits a in
  let (a1, p1) = p0 in
  let (a2, p2) = p1 in
  let (a3, p3) = p2 in
  let (a4, p4) = p3 in
  let (a5, p5) = p4 in
  let (a6, a7) = p5 in
  let (b0, p6) = to_bits b in
  let (b1, p7) = p6 in
  let (b2, p8) = p7 in
  let (b3, p9) = p8 in
  let (b4, p10) = p9 in
  let (b5, p11) = p10 in
  let (b6, b7) = p11 in
  (&&)
    ((&&)
      ((&&)
        ((&&)
          ((&&) ((&&) ((&&) (eqb a0 b0) (eqb a1 b1)) (eqb a2 b2)) (eqb a3 b3))
          (eqb a4 b4)) (eqb a5 b5)) (eqb a6 b6)) (eqb a7 b7)

(** val to_N : byte -> n **)

let to_N = function
| X00 -> N0
| X01 -> Npos XH
| X02 -> Npos (XO XH)
| X03 -> Npos (XI XH)
| X04 -> Npos (XO (XO XH))
| X05 -> Npos (XI (XO XH))
| X06 -> Npos (XO (XI XH))
| X07 -> Npos (XI (XI XH))
| X08 -> Npos (XO (XO (XO XH)))
| X09 -> Npos (XI (XO (XO XH)))
| X0a -> Npos (XO (XI (XO XH)))
| X0b -> Npos (XI (XI (XO XH)))
| X0c -> Npos (XO (XO (XI XH)))
| X0d -> Npos (XI (XO (XI XH)))
| X0e -> Npos (XO (XI (XI XH)))
| X0f -> Npos (XI (XI (XI XH)))
| X10 -> Npos (XO (XO (XO (XO XH))))
| X11 -> Npos (XI (XO (XO (XO XH))))
| X12 -> Npos (XO (XI (XO (XO XH))))
| X13 -> Npos (XI (XI (XO (XO XH))))
| X14 -> Npos (XO (XO (XI (XO XH))))
| X15 -> Npos (XI (XO (XI (XO XH))))
| X16 -> Npos (XO (XI (XI (XO XH))))
| X17 -> Npos (XI (XI (XI (XO XH))))
| X18 -> Npos (XO (XO (XO (XI XH))))
| X19 -> Npos (XI (XO (XO (XI XH))))
| X1a -> Npos (XO (XI (XO (XI XH))))
| X1b -> Npos (XI (XI (XO (XI XH))))
| X1c -> Npos (XO (XO (XI (XI XH))))
| X1d -> Npos (XI (XO (XI (XI XH))))
| X1e -> Npos (XO (XI (XI (XI XH))))
| X1f -> Npos (XI (XI (XI (XI XH))))
| X20 -> Npos (XO (XO (XO (XO (XO XH)))))
| X21 -> Npos (XI (XO (XO (XO (XO XH)))))
| X22 -> Npos (XO (XI (XO (XO (XO XH)))))
| X23 -> Npos (XI (XI (XO (XO (XO XH)))))
| X24 -> Npos (XO (XO (XI (XO (XO XH)))))
| X25 -> Npos (XI (XO (XI (XO (XO XH)))))
| X26 -> Npos (XO (XI (XI (XO (XO XH)))))
| X27 -> Npos (XI (XI (XI (XO (XO XH)))))
| X28 -> Npos (XO (XO (XO (XI (XO XH)))))
| X29 -> Npos (XI (XO (XO (XI (XO XH)))))
| X2a -> Npos (XO (XI (XO (XI (XO XH)))))
| X2b -> Npos (XI (XI (XO (XI (XO XH)))))
| X2c -> Npos (XO (XO (XI (XI (XO XH)))))
| X2d -> Npos (XI (XO (XI (XI (XO XH)))))
| X2e -> Npos (XO (XI (XI (XI (XO XH)))))
| X2f -> Npos (XI (XI (XI (XI (XO XH)))))
| X30 -> Npos (XO (XO (XO (XO (XI XH)))))
| X31 -> Npos (XI (XO (XO (XO (XI XH)))))
| X32 -> Npos (XO (XI (XO (XO (XI XH)))))
| X33 -> Npos (XI (XI (XO (XO (XI XH)))))
| X34 -> Npos (XO (XO (XI (XO (XI XH)))))
| X35 -> Npos (XI (XO (XI (XO (XI XH)))))
| X36 -> Npos (XO (XI (XI (XO (XI XH)))))
| X37 -> Npos (XI (XI (XI (XO (XI XH)))))
| X38 -> Npos (XO (XO (XO (XI (XI XH)))))
| X39 -> Npos (XI (XO (XO (XI (XI XH)))))
| X3a -> Npos (XO (XI (XO (XI (XI XH)))))
| X3b -> Npos (XI (XI (XO (XI (XI XH)))))
| X3c -> Npos (XO (XO (XI (XI (XI XH)))))
| X3d -> Npos (XI (XO (XI (XI (XI XH)))))
| X3e -> Npos (XO (XI (XI (XI (XI XH)))))
| X3f -> Npos (XI (XI (XI (XI (XI XH)))))
| X40 -> Npos (XO (XO (XO (XO (XO (XO XH))))))
| X41 -> Npos (XI (XO (XO (XO (XO (XO XH))))))
| X42 -> Npos (XO (XI (XO (XO (XO (XO XH))))))
| X43 -> Npos (XI (XI (XO (XO (XO (XO XH))))))
| X44 -> Npos (XO (XO (XI (XO (XO (XO XH))))))
| X45 -> Npos (XI (XO (XI (XO (XO (XO XH))))))
| X46 -> Npos (XO (XI (XI (XO (XO (XO XH))))))
| X47 -> Npos (XI (XI (XI (XO (XO (XO XH))))))
| X48 -> Npos (XO (XO (XO (XI (XO (XO XH))))))
| X49 -> Npos (XI (XO (XO (XI (XO (XO XH))))))
| X4a -> Npos (XO (XI (XO (XI (XO (XO XH))))))
| X4b -> Npos (XI (XI (XO (XI (XO (XO XH))))))
| X4c -> Npos (XO (XO (XI (XI (XO (XO XH))))))
| X4d -> Npos (XI (XO (XI (XI (XO (XO XH))))))
| X4e -> Npos (XO (XI (XI (XI (XO (XO XH))))))
| X4f -> Npos (XI (XI (XI (XI (XO (XO XH))))))
| X50 -> Npos (XO (XO (XO (XO (XI (XO XH))))))
| X51 -> Npos (XI (XO (XO (XO (XI (XO XH))))))
| X52 -> Npos (XO (XI (XO (XO (XI (XO XH))))))
| X53 -> Npos (XI (XI (XO (XO (XI (XO XH))))))
| X54 -> Npos (XO (XO (XI (XO (XI (XO XH))))))
| X55 -> Npos (XI (XO (XI (XO (XI (XO XH))))))
| X56 -> Npos (XO (XI (XI (XO (XI (XO XH))))))
| X57 -> Npos (XI (XI (XI (XO (XI (XO XH))))))
| X58 -> Npos (XO (XO (XO (XI (XI (XO XH))))))
| X59 -> Npos (XI (XO (XO (XI (XI (XO XH))))))
| X5a -> Npos (XO (XI (XO (XI (XI (XO XH))))))
| X5b -> Npos (XI (XI (XO (XI (XI (XO XH))))))
| X5c -> Npos (XO (XO (XI (XI (XI (XO XH))))))
| X5d -> Npos (XI (XO (XI (XI (XI (XO XH))))))
| X5e -> Npos (XO (XI (XI (XI (XI (XO XH))))))
| X5f -> Npos (XI (XI (XI (XI (XI (XO XH))))))
| X60 -> Npos (XO (XO (XO (XO (XO (XI XH))))))
| X61 -> Npos (XI (XO (XO (XO (XO (XI XH))))))
| X62 -> Npos (XO (XI (XO (XO (XO (XI XH))))))
| X63 -> Npos (XI (XI (XO (XO (XO (XI XH))))))
| X64 -> Npos (XO (XO (XI (XO (XO (XI XH))))))
| X65 -> Npos (XI (XO (XI (XO (XO (XI XH))))))
| X66 -> Npos (XO (XI (XI (XO (XO (XI XH))))))
| X67 -> Npos (XI (XI (XI (XO (XO (XI XH))))))
| X68 -> Npos (XO (XO (XO (XI (XO (XI XH))))))
| X69 -> Npos (XI (XO (XO (XI (XO (XI XH))))))
| X6a -> Npos (XO (XI (XO (XI (XO (XI XH))))))
| X6b -> Npos (XI (XI (XO (XI (XO (XI XH))))))
| X6c -> Npos (XO (XO (XI (XI (XO (XI XH))))))
| X6d -> Npos (XI (XO (XI (XI (XO (XI XH))))))
| X6e -> Npos (XO (XI (XI (XI (XO (XI XH))))))
| X6f -> Npos (XI (XI (XI (XI (XO (XI XH))))))
| X70 -> Npos (XO (XO (XO (XO (XI (XI XH))))))
| X71 -> Npos (XI (XO (XO (XO (XI (XI XH))))))
| X72 -> Npos (XO (XI (XO (XO (XI (XI XH))))))
| X73 -> Npos (XI (XI (XO (XO (XI (XI XH))))))
| X74 -> Npos (XO (XO (XI (XO (XI (XI XH))))))
| X75 -> Npos (XI (XO (XI (XO (XI (XI XH))))))
| X76 -> Npos (XO (XI (XI (XO (XI (XI XH))))))
| X77 -> Npos (XI (XI (XI (XO (XI (XI XH))))))
| X78 -> Npos (XO (XO (XO (XI (XI (XI XH))))))
| X79 -> Npos (XI (XO (XO (XI (XI (XI XH))))))
| X7a -> Npos (XO (XI (XO (XI (XI (XI XH))))))
| X7b -> Npos (XI (XI (XO (XI (XI (XI XH))))))
| X7c -> Npos (XO (XO (XI (XI (XI (XI XH))))))
| X7d -> Npos (XI (XO (XI (XI (XI (XI XH))))))
| X7e -> Npos (XO (XI (XI (XI (XI (XI XH))))))
| X7f -> Npos (XI (XI (XI (XI (XI (XI XH))))))
| X80 -> Npos (XO (XO (XO (XO (XO (XO (XO XH)))))))
| X81 -> Npos (XI (XO (XO (XO (XO (XO (XO XH)))))))
| X82 -> Npos (XO (XI (XO (XO (XO (XO (XO XH)))))))
| X83 -> Npos (XI (XI (XO (XO (XO (XO (XO XH)))))))
| X84 -> Npos (XO (XO (XI (XO (XO (XO (XO XH)))))))
| X85 -> Npos (XI (XO (XI (XO (XO (XO (XO XH)))))))
| X86 -> Npos (XO (XI (XI (XO (XO (XO (XO XH)))))))
| X87 -> Npos (XI (XI (XI (XO (XO (XO (XO XH)))))))
| X88 -> Npos (XO (XO (XO (XI (XO (XO (XO XH)))))))
| X89 -> Npos (XI (XO (XO (XI (XO (XO (XO XH)))))))
| X8a -> Npos (XO (XI (XO (XI (XO (XO (XO XH)))))))
| X8b -> Npos (XI (XI (XO (XI (XO (XO (XO XH)))))))
| X8c -> Npos (XO (XO (XI (XI (XO (XO (XO XH)))))))
| X8d -> Npos (XI (XO (XI (XI (XO (XO (XO XH)))))))
| X8e -> Npos (XO (XI (XI (XI (XO (XO (XO XH)))))))
| X8f -> Npos (XI (XI (XI (XI (XO (XO (XO XH)))))))
| X90 -> Npos (XO (XO (XO (XO (XI (XO (XO XH)))))))
| X91 -> Npos (XI (XO (XO (XO (XI (XO (XO XH)))))))
| X92 -> Npos (XO (XI (XO (XO (XI (XO (XO XH)))))))
| X93 -> Npos (XI (XI (XO (XO (XI (XO (XO XH)))))))
| X94 -> Npos (XO (XO (XI (XO (XI (XO (XO XH)))))))
| X95 -> Npos (XI (XO (XI (XO (XI (XO (XO XH)))))))
| X96 -> Npos (XO (XI (XI (XO (XI (XO (XO XH)))))))
| X97 -> Npos (XI (XI (XI (XO (XI (XO (XO XH)))))))
| X98 -> Npos (XO (XO (XO (XI (XI (XO (XO XH)))))))
| X99 -> Npos (XI (XO (XO (XI (XI (XO (XO XH)))))))
| X9a -> Npos (XO (XI (XO (XI (XI (XO (XO XH)))))))
| X9b -> Npos (XI (XI (XO (XI (XI (XO (XO XH)))))))
| X9c -> Npos (XO (XO (XI (XI (XI (XO (XO XH)))))))
| X9d -> Npos (XI (XO (XI (XI (XI (XO (XO XH)))))))
| X9e -> Npos (XO (XI (XI (XI (XI (XO (XO XH)))))))
| X9f -> Npos (XI (XI (XI (XI (XI (XO (XO XH)))))))
| Xa0 -> Npos (XO (XO (XO (XO (XO (XI (XO XH)))))))
| Xa1 -> Npos (XI (XO (XO (XO (XO (XI (XO XH)))))))
| Xa2 -> Npos (XO (XI (XO (XO (XO (XI (XO XH)))))))
| Xa3 -> Npos (XI (XI (XO (XO (XO (XI (XO XH)))))))
| Xa4 -> Npos (XO (XO (XI (XO (XO (XI (XO XH)))))))
| Xa5 -> Npos (XI (XO (XI (XO (XO (XI (XO XH)))))))
| Xa6 -> Npos (XO (XI (XI (XO (XO (XI (XO XH)))))))
| Xa7 -> Npos (XI (XI (XI (XO (XO (XI (XO XH)))))))
| Xa8 -> Npos (XO (XO (XO (XI (XO (XI (XO XH)))))))
| Xa9 -> Npos (XI (XO (XO (XI (XO (XI (XO XH)))))))
| Xaa -> Npos (XO (XI (XO (XI (XO (XI (XO XH)))))))
| Xab -> Npos (XI (XI (XO (XI (XO (XI (XO XH)))))))
| Xac -> Npos (XO (XO (XI (XI (XO (XI (XO XH)))))))
| Xad -> Npos (XI (XO (XI (XI (XO (XI (XO XH)))))))
| Xae -> Npos (XO (XI (XI (XI (XO (XI (XO XH)))))))
| Xaf -> Npos (XI (XI (XI (XI (XO (XI (XO XH)))))))
| Xb0 -> Npos (XO (XO (XO (XO (XI (XI (XO XH)))))))
| Xb1 -> Npos (XI (XO (XO (XO (XI (XI (XO XH)))))))
| Xb2 -> Npos (XO (XI (XO (XO (XI (XI (XO XH)))))))
| Xb3 -> Npos (XI (XI (XO (XO (XI (XI (XO XH)))))))
| Xb4 -> Npos (XO (XO (XI (XO (XI (XI (XO XH)))))))
| Xb5 -> Npos (XI (XO (XI (XO (XI (XI (XO XH)))))))
| Xb6 -> Npos (XO (XI (XI (XO (XI (XI (XO XH)))))))
| Xb7 -> Npos (XI (XI (XI (XO (XI (XI (XO XH)))))))
| Xb8 -> Npos (XO (XO (XO (XI (XI (XI (XO XH)))))))
| Xb9 -> Npos (XI (XO (XO (XI (XI (XI (XO XH)))))))
| Xba -> Npos (XO (XI (XO (XI (XI (XI (XO XH)))))))
| Xbb -> Npos (XI (XI (XO (XI (XI (XI (XO XH)))))))
| Xbc -> Npos (XO (XO (XI (XI (XI (XI (XO XH)))))))
| Xbd -> Npos (XI (XO (XI (XI (XI (XI (XO XH)))))))
| Xbe -> Npos (XO (XI (XI (XI (XI (XI (XO XH)))))))
| Xbf -> Npos (XI (XI (XI (XI (XI (XI (XO XH)))))))
| Xc0 -> Npos (XO (XO (XO (XO (XO (XO (XI XH)))))))
| Xc1 -> Npos (XI (XO (XO (XO (XO (XO (XI XH)))))))
| Xc2 -> Npos (XO (XI (XO (XO (XO (XO (XI XH)))))))
| Xc3 -> Npos (XI (XI (XO (XO (XO (XO (XI XH)))))))
| Xc4 -> Npos (XO (XO (XI (XO (XO (XO (XI XH)))))))
| Xc5 -> Npos (XI (XO (XI (XO (XO (XO (XI XH)))))))
| Xc6 -> Npos (XO (XI (XI (XO (XO (XO (XI XH)))))))
| Xc7 -> Npos (XI (XI (XI (XO (XO (XO (XI XH)))))))
| Xc8 -> Npos (XO (XO (XO (XI (XO (XO (XI XH)))))))
| Xc9 -> Npos (XI (XO (XO (XI (XO (XO (XI XH)))))))
| Xca -> Npos (XO (XI (XO (XI (XO (XO (XI XH)))))))
| Xcb -> Npos (XI (XI (XO (XI (XO (XO (XI XH)))))))
| Xcc -> Npos (XO (XO (XI (XI (XO (XO (XI XH)))))))
| Xcd -> Npos (XI (XO (XI (XI (XO (XO (XI XH)))))))
| Xce -> Npos (XO (XI (XI (XI (XO (XO (XI XH)))))))
| Xcf -> Npos (XI (XI (XI (XI (XO (XO (XI XH)))))))
| Xd0 -> Npos (XO (XO (XO (XO (XI (XO (XI XH)))))))
| Xd1 -> Npos (XI (XO (XO (XO (XI (XO (XI XH)))))))
| Xd2 -> Npos (XO (XI (XO (XO (XI (XO (XI XH)))))))
| Xd3 -> Npos (XI (XI (XO (XO (XI (XO (XI XH)))))))
| Xd4 -> Npos (XO (XO (XI (XO (XI (XO (XI XH)))))))
| Xd5 -> Npos (XI (XO (XI (XO (XI (XO (XI XH)))))))
| Xd6 -> Npos (XO (XI (XI (XO (XI (XO (XI XH)))))))
| Xd7 -> Npos (XI (XI (XI (XO (XI (XO (XI XH)))))))
| Xd8 -> Npos (XO (XO (XO (XI (XI (XO (XI XH)))))))
| Xd9 -> Npos (XI (XO (XO (XI (XI (XO (XI XH)))))))
| Xda -> Npos (XO (XI (XO (XI (XI (XO (XI XH)))))))
| Xdb -> Npos (XI (XI (XO (XI (XI (XO (XI XH)))))))
| Xdc -> Npos (XO (XO (XI (XI (XI (XO (XI XH)))))))
| Xdd -> Npos (XI (XO (XI (XI (XI (XO (XI XH)))))))
| Xde -> Npos (XO (XI (XI (XI (XI (XO (XI XH)))))))
| Xdf -> Npos (XI (XI (XI (XI (XI (XO (XI XH)))))))
| Xe0 -> Npos (XO (XO (XO (XO (XO (XI (XI XH)))))))
| Xe1 -> Npos (XI (XO (XO (XO (XO (XI (XI XH)))))))
| Xe2 -> Npos (XO (XI (XO (XO (XO (XI (XI XH)))))))
| Xe3 -> Npos (XI (XI (XO (XO (XO (XI (XI XH)))))))
| Xe4 -> Npos (XO (XO (XI (XO (XO (XI (XI XH)))))))
| Xe5 -> Npos (XI (XO (XI (XO (XO (XI (XI XH)))))))
| Xe6 -> Npos (XO (XI (XI (XO (XO (XI (XI XH)))))))
| Xe7 -> Npos (XI (XI (XI (XO (XO (XI (XI XH)))))))
| Xe8 -> Npos (XO (XO (XO (XI (XO (XI (XI XH)))))))
| Xe9 -> Npos (XI (XO (XO (XI (XO (XI (XI XH)))))))
| Xea -> Npos (XO (XI (XO (XI (XO (XI (XI XH)))))))
| Xeb -> Npos (XI (XI (XO (XI (XO (XI (XI XH)))))))
| Xec -> Npos (XO (XO (XI (XI (XO (XI (XI XH)))))))
| Xed -> Npos (XI (XO (XI (XI (XO (XI (XI XH)))))))
| Xee -> Npos (XO (XI (XI (XI (XO (XI (XI XH)))))))
| Xef -> Npos (XI (XI (XI (XI (XO (XI (XI XH)))))))
| Xf0 -> Npos (XO (XO (XO (XO (XI (XI (XI XH)))))))
| Xf1 -> Npos (XI (XO (XO (XO (XI (XI (XI XH)))))))
| Xf2 -> Npos (XO (XI (XO (XO (XI (XI (XI XH)))))))
| Xf3 -> Npos (XI (XI (XO (XO (XI (XI (XI XH)))))))
| Xf4 -> Npos (XO (XO (XI (XO (XI (XI (XI XH)))))))
| Xf5 -> Npos (XI (XO (XI (XO (XI (XI (XI XH)))))))
| Xf6 -> Npos (XO (XI (XI (XO (XI (XI (XI XH)))))))
| Xf7 -> Npos (XI (XI (XI (XO (XI (XI (XI XH)))))))
| Xf8 -> Npos (XO (XO (XO (XI (XI (XI (XI XH)))))))
| Xf9 -> Npos (XI (XO (XO (XI (XI (XI (XI XH)))))))
| Xfa -> Npos (XO (XI (XO (XI (XI (XI (XI XH)))))))
| Xfb -> Npos (XI (XI (XO (XI (XI (XI (XI XH)))))))
| Xfc -> Npos (XO (XO (XI (XI (XI (XI (XI XH)))))))
| Xfd -> Npos (XI (XO (XI (XI (XI (XI (XI XH)))))))
| Xfe -> Npos (XO (XI (XI (XI (XI (XI (XI XH)))))))
| Xff -> Npos (XI (XI (XI (XI (XI (XI (XI XH)))))))

(** val of_N : n -> byte option **)

let of_N = function
| N0 -> Some X00
| Npos p0 ->
  (match p0 with
   | XI p1 ->
     (match p1 with
      | XI p2 ->
        (match p2 with
         | XI p3 ->
           (match p3 with
            | XI p4 ->
              (match p4 with
               | XI p5 ->
                 (match p5 with
                  | XI p6 ->
                    (match p6 with
                     | XI p7 -> (match p7 with
                                 | XH -> Some Xff
                                 | _ -> None)
                     | XO p7 -> (match p7 with
                                 | XH -> Some Xbf
                                 | _ -> None)
                     | XH -> Some X7f)
                  | XO p6 ->
                    (match p6 with
                     | XI p7 -> (match p7 with
                                 | XH -> Some Xdf
                                 | _ -> None)
                     | XO p7 -> (match p7 with
                                 | XH -> Some X9f
                                 | _ -> None)
                     | XH -> Some X5f)
                  | XH -> Some X3f)
               | XO p5 ->
                 (match p5 with
                  | XI p6 ->
                    (match p6 with
                     | XI p7 -> (match p7 with
                                 | XH -> Some Xef
                                 | _ -> None)
                     | XO p7 -> (match p7 with
                                 | XH -> Some Xaf
                                 | _ -> None)
                     | XH -> Some X6f)
                  | XO p6 ->
                    (match p6 with
                     | XI p7 -> (match p7 with
                                 | XH -> Some Xcf
                                 | _ -> None)
                     | XO p7 -> (match p7 with
                                 | XH -> Some X8f
                                 | _ -> None)
                     | XH -> Some X4f)
                  | XH -> Some X2f)
               | XH -> Some X1f)
            | XO p4 ->
              (match p4 with
               | XI p5 ->
                 (match p5 with
                  | XI p6 ->
                    (match p6 with
                     | XI p7 -> (match p7 with
                                 | XH -> Some Xf7
                                 | _ -> None)
                     | XO p7 -> (match p7 with
                                 | XH -> Some Xb7
                                 | _ -> None)
                     | XH -> Some X77)
                  | XO p6 ->
                    (match p6 with
                     | XI p7 -> (match p7 with
                                 | XH -> Some Xd7
                                 | _ -> None)
                     | XO p7 -> (match p7 with
                                 | XH -> Some X97
                                 | _ -> None)
                     | XH -> Some X57)
                  | XH -> Some X37)
               | XO p5 ->
                 (match p5 with
                  | XI p6 ->
                    (match p6 with
                     | XI p7 -> (match p7 with
                                 | XH -> Some Xe7
                                 | _ -> None)
                     | XO p7 -> (match p7 with
                                 | XH -> Some Xa7
                                 | _ -> None)
                     | XH -> Some X67)
                  | XO p6 ->
                    (match p6 with
                     | XI p7 -> (match p7 with
                                 | XH -> Some Xc7
                                 | _ -> None)
                     | XO p7 -> (match p7 with
                                 | XH -> Some X87
                                 | _ -> None)
                     | XH -> Some X47)
                  | XH -> Some X27)
               | XH -> Some X17)
            | XH -> Some X0f)
         | XO p3 ->
           (match p3 with
            | XI p4 ->
              (match p4 with
               | XI p5 ->
                 (match p5 with
                  | XI p6 ->
                    (match p6 with
                     | XI p7 -> (match p7 with
                                 | XH -> Some Xfb
                                 | _ -> None)
                     | XO p7 -> (match p7 with
                                 | XH -> Some Xbb
                                 | _ -> None)
                     | XH -> Some X7b)
                  | XO p6 ->
                    (match p6 with
                     | XI p7 -> (match p7 with
                                 | XH -> Some Xdb
                                 | _ -> None)
                     | XO p7 -> (match p7 with
                                 | XH -> Some X9b
                                 | _ -> None)
                     | XH -> Some X5b)
                  | XH -> Some X3b)
               | XO p5 ->
                 (match p5 with
                  | XI p6 ->
                    (match p6 with
                     | XI p7 -> (match p7 with
                                 | XH -> Some Xeb
                                 | _ -> None)
                     | XO p7 -> (match p7 with
                                 | XH -> Some Xab
                                 | _ -> None)
                     | XH -> Some X6b)
                  | XO p6 ->
                    (match p6 with
                     | XI p7 -> (match p7 with
                                 | XH -> Some Xcb
                                 | _ -> None)
                     | XO p7 -> (match p7 with
                                 | XH -> Some X8b
                                 | _ -> None)
                     | XH -> Some X4b)
                  | XH -> Some X2b)
               | XH -> Some X1b)
            | XO p4 ->
              (match p4 with
               | XI p5 ->
                 (match p5 with
                  | XI p6 ->
                    (match p6 with
                     | XI p7 -> (match p7 with
                                 | XH -> Some Xf3
                                 | _ -> None)
                     | XO p7 -> (match p7 with
                                 | XH -> Some Xb3
                                 | _ -> None)
                     | XH -> Some X73)
                  | XO p6 ->
                    (match p6 with
                     | XI p7 -> (match p7 with
                                 | XH -> Some Xd3
                                 | _ -> None)
                     | XO p7 -> (match p7 with
                                 | XH -> Some X93
                                 | _ -> None)
                     | XH -> Some X53)
                  | XH -> Some X33)
               | XO p5 ->
                 (match p5 with
                  | XI p6 ->
                    (match p6 with
                     | XI p7 -> (match p7 with
                                 | XH -> Some Xe3
                                 | _ -> None)
                     | XO p7 -> (match p7 with
                                 | XH -> Some Xa3
                                 | _ -> None)
                     | XH -> Some X63)
                  | XO p6 ->
                    (match p6 with
                     | XI p7 -> (match p7 with
                                 | XH -> Some Xc3
                                 | _ -> None)
                     | XO p7 -> (match p7 with
                                 | XH -> Some X83
                                 | _ -> None)
                     | XH -> Some X43)
                  | XH -> Some X23)
               | XH -> Some X13)
            | XH -> Some X0b)
         | XH -> Some X07)
      | XO p2 ->
        (match p2 with
         | XI p3 ->
           (match p3 with
            | XI p4 ->
              (match p4 with
               | XI p5 ->
                 (match p5 with
                  | XI p6 ->
                    (match p6 with
                     | XI p7 -> (match p7 with
                                 | XH -> Some Xfd
                                 | _ -> None)
                     | XO p7 -> (match p7 with
                                 | XH -> Some Xbd
                                 | _ -> None)
                     | XH -> Some X7d)
                  | XO p6 ->
                    (match p6 with
                     | XI p7 -> (match p7 with
                                 | XH -> Some Xdd
                                 | _ -> None)
                     | XO p7 -> (match p7 with
                                 | XH -> Some X9d
                                 | _ -> None)
                     | XH -> Some X5d)
                  | XH -> Some X3d)
               | XO p5 ->
                 (match p5 with
                  | XI p6 ->
                    (match p6 with
                     | XI p7 -> (match p7 with
                                 | XH -> Some Xed
                                 | _ -> None)
                     | XO p7 -> (match p7 with
                                 | XH -> Some Xad
                                 | _ -> None)
                     | XH -> Some X6d)
                  | XO p6 ->
                    (match p6 with
                     | XI p7 -> (match p7 with
                                 | XH -> Some Xcd
                                 | _ -> None)
                     | XO p7 -> (match p7 with
                                 | XH -> Some X8d
                                 | _ -> None)
                     | XH -> Some X4d)
                  | XH -> Some X2d)
               | XH -> Some X1d)
            | XO p4 ->
              (match p4 with
               | XI p5 ->
                 (match p5 with
                  | XI p6 ->
                    (match p6 with
                     | XI p7 -> (match p7 with
                                 | XH -> Some Xf5
                                 | _ -> None)
                     | XO p7 -> (match p7 with
                                 | XH -> Some Xb5
                                 | _ -> None)
                     | XH -> Some X75)
                  | XO p6 ->
                    (match p6 with
                     | XI p7 -> (match p7 with
                                 | XH -> Some Xd5
                                 | _ -> None)
                     | XO p7 -> (match p7 with
                                 | XH -> Some X95
                                 | _ -> None)
                     | XH -> Some X55)
                  | XH -> Some X35)
               | XO p5 ->
                 (match p5 with
                  | XI p6 ->
                    (match p6 with
                     | XI p7 -> (match p7 with
                                 | XH -> Some Xe5
                                 | _ -> None)
                     | XO p7 -> (match p7 with
                                 | XH -> Some Xa5
                                 | _ -> None)
                     | XH -> Some X65)
                  | XO p6 ->
                    (match p6 with
                     | XI p7 -> (match p7 with
                                 | XH -> Some Xc5
                                 | _ -> None)
                     | XO p7 -> (match p7 with
                                 | XH -> Some X85
                                 | _ -> None)
                     | XH -> Some X45)
                  | XH -> Some X25)
               | XH -> Some X15)
            | XH -> Some X0d)
         | XO p3 ->
           (match p3 with
            | XI p4 ->
              (match p4 with
               | XI p5 ->
                 (match p5 with
                  | XI p6 ->
                    (match p6 with
                     | XI p7 -> (match p7 with
                                 | XH -> Some Xf9
                                 | _ -> None)
                     | XO p7 -> (match p7 with
                                 | XH -> Some Xb9
                                 | _ -> None)
                     | XH -> Some X79)
                  | XO p6 ->
                    (match p6 with
                     | XI p7 -> (match p7 with
                                 | XH -> Some Xd9
                                 | _ -> None)
                     | XO p7 -> (match p7 with
                                 | XH -> Some X99
                                 | _ -> None)
                     | XH -> Some X59)
                  | XH -> Some X39)
               | XO p5 ->
                 (match p5 with
                  | XI p6 ->
                    (match p6 with
                     | XI p7 -> (match p7 with
                                 | XH -> Some Xe9
                                 | _ -> None)
                     | XO p7 -> (match p7 with
                                 | XH -> Some Xa9
                                 | _ -> None)
                     | XH -> Some X69)
                  | XO p6 ->
                    (match p6 with
                     | XI p7 -> (match p7 with
                                 | XH -> Some Xc9
                                 | _ -> None)
                     | XO p7 -> (match p7 with
                                 | XH -> Some X89
                                 | _ -> None)
                     | XH -> Some X49)
                  | XH -> Some X29)
               | XH -> Some X19)
            | XO p4 ->
              (match p4 with
               | XI p5 ->
                 (match p5 with
                  | XI p6 ->
                    (match p6 with
                     | XI p7 -> (match p7 with
                                 | XH -> Some Xf1
                                 | _ -> None)
                     | XO p7 -> (match p7 with
                                 | XH -> Some Xb1
                                 | _ -> None)
                     | XH -> Some X71)
                  | XO p6 ->
                    (match p6 with
                     | XI p7 -> (match p7 with
                                 | XH -> Some Xd1
                                 | _ -> None)
                     | XO p7 -> (match p7 with
                                 | XH -> Some X91
                                 | _ -> None)
                     | XH -> Some X51)
                  | XH -> Some X31)
               | XO p5 ->
                 (match p5 with
                  | XI p6 ->
                    (match p6 with
                     | XI p7 -> (match p7 with
                                 | XH -> Some Xe1
                                 | _ -> None)
                     | XO p7 -> (match p7 with
                                 | XH -> Some Xa1
                                 | _ -> None)
                     | XH -> Some X61)
                  | XO p6 ->
                    (match p6 with
                     | XI p7 -> (match p7 with
                                 | XH -> Some Xc1
                                 | _ -> None)
                     | XO p7 -> (match p7 with
                                 | XH -> Some X81
                                 | _ -> None)
                     | XH -> Some X41)
                  | XH -> Some X21)
               | XH -> Some X11)
            | XH -> Some X09)
         | XH -> Some X05)
      | XH -> Some X03)
   | XO p1 ->
     (match p1 with
      | XI p2 ->
        (match p2 with
         | XI p3 ->
           (match p3 with
            | XI p4 ->
              (match p4 with
               | XI p5 ->
                 (match p5 with
                  | XI p6 ->
                    (match p6 with
                     | XI p7 -> (match p7 with
                                 | XH -> Some Xfe
                                 | _ -> None)
                     | XO p7 -> (match p7 with
                                 | XH -> Some Xbe
                                 | _ -> None)
                     | XH -> Some X7e)
                  | XO p6 ->
                    (match p6 with
                     | XI p7 -> (match p7 with
                                 | XH -> Some Xde
                                 | _ -> None)
                     | XO p7 -> (match p7 with
                                 | XH -> Some X9e
                                 | _ -> None)
                     | XH -> Some X5e)
                  | XH -> Some X3e)
               | XO p5 ->
                 (match p5 with
                  | XI p6 ->
                    (match p6 with
                     | XI p7 -> (match p7 with
                                 | XH -> Some Xee
                                 | _ -> None)
                     | XO p7 -> (match p7 with
                                 | XH -> Some Xae
                                 | _ -> None)
                     | XH -> Some X6e)
                  | XO p6 ->
                    (match p6 with
                     | XI p7 -> (match p7 with
                                 | XH -> Some Xce
                                 | _ -> None)
                     | XO p7 -> (match p7 with
                                 | XH -> Some X8e
                                 | _ -> None)
                     | XH -> Some X4e)
                  | XH -> Some X2e)
               | XH -> Some X1e)
            | XO p4 ->
              (match p4 with
               | XI p5 ->
                 (match p5 with
                  | XI p6 ->
                    (match p6 with
                     | XI p7 -> (match p7 with
                                 | XH -> Some Xf6
                                 | _ -> None)
                     | XO p7 -> (match p7 with
                                 | XH -> Some Xb6
                                 | _ -> None)
                     | XH -> Some X76)
                  | XO p6 ->
                    (match p6 with
                     | XI p7 -> (match p7 with
                                 | XH -> Some Xd6
                                 | _ -> None)
                     | XO p7 -> (match p7 with
                                 | XH -> Some X96
                                 | _ -> None)
                     | XH -> Some X56)
                  | XH -> Some X36)
               | XO p5 ->
                 (match p5 with
                  | XI p6 ->
                    (match p6 with
                     | XI p7 -> (match p7 with
                                 | XH -> Some Xe6
                                 | _ -> None)
                     | XO p7 -> (match p7 with
                                 | XH -> Some Xa6
                                 | _ -> None)
                     | XH -> Some X66)
                  | XO p6 ->
                    (match p6 with
                     | XI p7 -> (match p7 with
                                 | XH -> Some Xc6
                                 | _ -> None)
                     | XO p7 -> (match p7 with
                                 | XH -> Some X86
                                 | _ -> None)
                     | XH -> Some X46)
                  | XH -> Some X26)
               | XH -> Some X16)
            | XH -> Some X0e)
         | XO p3 ->
           (match p3 with
            | XI p4 ->
              (match p4 with
               | XI p5 ->
                 (match p5 with
                  | XI p6 ->
                    (match p6 with
                     | XI p7 -> (match p7 with
                                 | XH -> Some Xfa
                                 | _ -> None)
                     | XO p7 -> (match p7 with
                                 | XH -> Some Xba
                                 | _ -> None)
                     | XH -> Some X7a)
                  | XO p6 ->
                    (match p6 with
                     | XI p7 -> (match p7 with
                                 | XH -> Some Xda
                                 | _ -> None)
                     | XO p7 -> (match p7 with
                                 | XH -> Some X9a
                                 | _ -> None)
                     | XH -> Some X5a)
                  | XH -> Some X3a)
               | XO p5 ->
                 (match p5 with
                  | XI p6 ->
                    (match p6 with
                     | XI p7 -> (match p7 with
                                 | XH -> Some Xea
                                 | _ -> None)
                     | XO p7 -> (match p7 with
                                 | XH -> Some Xaa
                                 | _ -> None)
                     | XH -> Some X6a)
                  | XO p6 ->
                    (match p6 with
                     | XI p7 -> (match p7 with
                                 | XH -> Some Xca
                                 | _ -> None)
                     | XO p7 -> (match p7 with
                                 | XH -> Some X8a
                                 | _ -> None)
                     | XH -> Some X4a)
                  | XH -> Some X2a)
               | XH -> Some X1a)
            | XO p4 ->
              (match p4 with
               | XI p5 ->
                 (match p5 with
                  | XI p6 ->
                    (match p6 with
                     | XI p7 -> (match p7 with
                                 | XH -> Some Xf2
                                 | _ -> None)
                     | XO p7 -> (match p7 with
                                 | XH -> Some Xb2
                                 | _ -> None)
                     | XH -> Some X72)
                  | XO p6 ->
                    (match p6 with
                     | XI p7 -> (match p7 with
                                 | XH -> Some Xd2
                                 | _ -> None)
                     | XO p7 -> (match p7 with
                                 | XH -> Some X92
                                 | _ -> None)
                     | XH -> Some X52)
                  | XH -> Some X32)
               | XO p5 ->
                 (match p5 with
                  | XI p6 ->
                    (match p6 with
                     | XI p7 -> (match p7 with
                                 | XH -> Some Xe2
                                 | _ -> None)
                     | XO p7 -> (match p7 with
                                 | XH -> Some Xa2
                                 | _ -> None)
                     | XH -> Some X62)
                  | XO p6 ->
                    (match p6 with
                     | XI p7 -> (match p7 with
                                 | XH -> Some Xc2
                                 | _ -> None)
                     | XO p7 -> (match p7 with
                                 | XH -> Some X82
                                 | _ -> None)
                     | XH -> Some X42)
                  | XH -> Some X22)
               | XH -> Some X12)
            | XH -> Some X0a)
         | XH -> Some X06)
      | XO p2 ->
        (match p2 with
         | XI p3 ->
           (match p3 with
            | XI p4 ->
              (match p4 with
               | XI p5 ->
                 (match p5 with
                  | XI p6 ->
                    (match p6 with
                     | XI p7 -> (match p7 with
                                 | XH -> Some Xfc
                                 | _ -> None)
                     | XO p7 -> (match p7 with
                                 | XH -> Some Xbc
                                 | _ -> None)
                     | XH -> Some X7c)
                  | XO p6 ->
                    (match p6 with
                     | XI p7 -> (match p7 with
                                 | XH -> Some Xdc
                                 | _ -> None)
                     | XO p7 -> (match p7 with
                                 | XH -> Some X9c
                                 | _ -> None)
                     | XH -> Some X5c)
                  | XH -> Some X3c)
               | XO p5 ->
                 (match p5 with
                  | XI p6 ->
                    (match p6 with
                     | XI p7 -> (match p7 with
                                 | XH -> Some Xec
                                 | _ -> None)
                     | XO p7 -> (match p7 with
                                 | XH -> Some Xac
                                 | _ -> None)
                     | XH -> Some X6c)
                  | XO p6 ->
                    (match p6 with
                     | XI p7 -> (match p7 with
                                 | XH -> Some Xcc
                                 | _ -> None)
                     | XO p7 -> (match p7 with
                                 | XH -> Some X8c
                                 | _ -> None)
                     | XH -> Some X4c)
                  | XH -> Some X2c)
               | XH -> Some X1c)
            | XO p4 ->
              (match p4 with
               | XI p5 ->
                 (match p5 with
                  | XI p6 ->
                    (match p6 with
                     | XI p7 -> (match p7 with
                                 | XH -> Some Xf4
                                 | _ -> None)
                     | XO p7 -> (match p7 with
                                 | XH -> Some Xb4
                                 | _ -> None)
                     | XH -> Some X74)
                  | XO p6 ->
                    (match p6 with
                     | XI p7 -> (match p7 with
                                 | XH -> Some Xd4
                                 | _ -> None)
                     | XO p7 -> (match p7 with
                                 | XH -> Some X94
                                 | _ -> None)
                     | XH -> Some X54)
                  | XH -> Some X34)
               | XO p5 ->
                 (match p5 with
                  | XI p6 ->
                    (match p6 with
                     | XI p7 -> (match p7 with
                                 | XH -> Some Xe4
                                 | _ -> None)
                     | XO p7 -> (match p7 with
                                 | XH -> Some Xa4
                                 | _ -> None)
                     | XH -> Some X64)
                  | XO p6 ->
                    (match p6 with
                     | XI p7 -> (match p7 with
                                 | XH -> Some Xc4
                                 | _ -> None)
                     | XO p7 -> (match p7 with
                                 | XH -> Some X84
                                 | _ -> None)
                     | XH -> Some X44)
                  | XH -> Some X24)
               | XH -> Some X14)
            | XH -> Some X0c)
         | XO p3 ->
           (match p3 with
            | XI p4 ->
              (match p4 with
               | XI p5 ->
                 (match p5 with
                  | XI p6 ->
                    (match p6 with
                     | XI p7 -> (match p7 with
                                 | XH -> Some Xf8
                                 | _ -> None)
                     | XO p7 -> (match p7 with
                                 | XH -> Some Xb8
                                 | _ -> None)
                     | XH -> Some X78)
                  | XO p6 ->
                    (match p6 with
                     | XI p7 -> (match p7 with
                                 | XH -> Some Xd8
                                 | _ -> None)
                     | XO p7 -> (match p7 with
                                 | XH -> Some X98
                                 | _ -> None)
                     | XH -> Some X58)
                  | XH -> Some X38)
               | XO p5 ->
                 (match p5 with
                  | XI p6 ->
                    (match p6 with
                     | XI p7 -> (match p7 with
                                 | XH -> Some Xe8
                                 | _ -> None)
                     | XO p7 -> (match p7 with
                                 | XH -> Some Xa8
                                 | _ -> None)
                     | XH -> Some X68)
                  | XO p6 ->
                    (match p6 with
                     | XI p7 -> (match p7 with
                                 | XH -> Some Xc8
                                 | _ -> None)
                     | XO p7 -> (match p7 with
                                 | XH -> Some X88
                                 | _ -> None)
                     | XH -> Some X48)
                  | XH -> Some X28)
               | XH -> Some X18)
            | XO p4 ->
              (match p4 with
               | XI p5 ->
                 (match p5 with
                  | XI p6 ->
                    (match p6 with
                     | XI p7 -> (match p7 with
                                 | XH -> Some Xf0
                                 | _ -> None)
                     | XO p7 -> (match p7 with
                                 | XH -> Some Xb0
                                 | _ -> None)
                     | XH -> Some X70)
                  | XO p6 ->
                    (match p6 with
                     | XI p7 -> (match p7 with
                                 | XH -> Some Xd0
                                 | _ -> None)
                     | XO p7 -> (match p7 with
                                 | XH -> Some X90
                                 | _ -> None)
                     | XH -> Some X50)
                  | XH -> Some X30)
               | XO p5 ->
                 (match p5 with
                  | XI p6 ->
                    (match p6 with
                     | XI p7 -> (match p7 with
                                 | XH -> Some Xe0
                                 | _ -> None)
                     | XO p7 -> (match p7 with
                                 | XH -> Some Xa0
                                 | _ -> None)
                     | XH -> Some X60)
                  | XO p6 ->
                    (match p6 with
                     | XI p7 -> (match p7 with
                                 | XH -> Some Xc0
                                 | _ -> None)
                     | XO p7 -> (match p7 with
                                 | XH -> Some X80
                                 | _ -> None)
                     | XH -> Some X40)
                  | XH -> Some X20)
               | XH -> Some X10)
            | XH -> Some X08)
         | XH -> Some X04)
      | XH -> Some X02)
   | XH -> Some X01)

type ascii =
| Ascii of bool * bool * bool * bool * bool * bool * bool * bool

(** val byte_of_ascii : ascii -> byte **)

let byte_of_ascii = function
| Ascii (b0, b1, b2, b3, b4, b5, b6, b7) ->
  of_bits (b0, (b1, (b2, (b3, (b4, (b5, (b6, b7)))))))

type string =
| EmptyString
| String of ascii * string

(** val list_ascii_of_string : string -> ascii list **)

let rec list_ascii_of_string = function
| EmptyString -> []
| String (ch, s0) -> ch :: (list_ascii_of_string s0)

(** val list_byte_of_string : string -> byte list **)

let list_byte_of_string s =
  map byte_of_ascii (list_ascii_of_string s)

(** val b2n : byte -> n **)

let b2n =
  to_N

(** val n2b : n -> byte **)

let n2b n0 =
  match of_N (N.modulo n0 (Npos (XO (XO (XO (XO (XO (XO (XO (XO XH)))))))))) with
  | Some b -> b
  | None -> X00

(** val lenN : 'a1 list -> n **)

let rec lenN = function
| [] -> N0
| _ :: t -> N.succ (lenN t)

(** val takeN : 'a1 list -> n -> 'a1 list **)

let rec takeN l n0 =
  match l with
  | [] -> []
  | x :: t -> if N.eqb n0 N0 then [] else x :: (takeN t (N.pred n0))

(** val dropN : 'a1 list -> n -> 'a1 list **)

let rec dropN l n0 =
  match l with
  | [] -> []
  | _ :: t -> if N.eqb n0 N0 then l else dropN t (N.pred n0)

(** val split_at : 'a1 list -> n -> ('a1 list * 'a1 list, n) sum **)

let rec split_at l n0 =
  if N.eqb n0 N0
  then Inl ([], l)
  else (match l with
        | [] -> Inr n0
        | x :: t ->
          (match split_at t (N.pred n0) with
           | Inl p0 -> let (p1, r) = p0 in Inl ((x :: p1), r)
           | Inr m -> Inr m))

(** val has_len : 'a1 list -> n -> bool **)

let rec has_len l n0 =
  if N.eqb n0 N0
  then true
  else (match l with
        | [] -> false
        | _ :: t -> has_len t (N.pred n0))

(** val be_fold : n -> byte list -> n **)

let rec be_fold acc = function
| [] -> acc
| b :: t ->
  be_fold
    (N.add (N.mul acc (Npos (XO (XO (XO (XO (XO (XO (XO (XO XH))))))))))
      (b2n b)) t

(** val be_val : byte list -> n **)

let be_val l =
  be_fold N0 l

(** val be_enc : nat -> n -> byte list **)

let rec be_enc k v =
  match k with
  | O -> []
  | S k' ->
    app
      (be_enc k' (N.div v (Npos (XO (XO (XO (XO (XO (XO (XO (XO XH)))))))))))
      ((n2b v) :: [])

(** val u8 : n -> byte list **)

let u8 v =
  be_enc (S O) v

(** val u16 : n -> byte list **)

let u16 v =
  be_enc (S (S O)) v

(** val u24 : n -> byte list **)

let u24 v =
  be_enc (S (S (S O))) v

(** val u32 : n -> byte list **)

let u32 v =
  be_enc (S (S (S (S O)))) v

type slice = { off : n; bytes : byte list }

(** val slen : slice -> n **)

let slen s =
  lenN s.bytes

(** val sdrop : slice -> n -> slice **)

let sdrop s n0 =
  { off = (N.add s.off n0); bytes = (dropN s.bytes n0) }

(** val pairs16 : byte list -> n list option **)

let rec pairs16 = function
| [] -> Some []
| a :: l0 ->
  (match l0 with
   | [] -> None
   | b :: t ->
     (match pairs16 t with
      | Some r ->
        Some
          ((N.add
             (N.mul (b2n a) (Npos (XO (XO (XO (XO (XO (XO (XO (XO XH))))))))))
             (b2n b)) :: r)
      | None -> None))

type needed =
| Unknown
| Size of n

(** val mk_needed : n -> needed **)

let mk_needed n0 =
  if N.eqb n0 N0 then Unknown else Size n0

type ekind =
| KTag
| KVerify
| KSwitch
| KTooLarge
| KLengthValue
| KComplete
| KMany0
| KMany1
| KCount
| KAlt
| KNonEmpty

type 'a res =
| Ok of slice * 'a
| Err of slice * ekind
| Fail of slice * ekind
| Incomplete of needed
| Panic
| OutOfFuel

type 'x p =
| Ret of 'x
| Bind of __ p * (__ -> 'x p)
| ErrK of ekind
| Take of n
| BeU of nat
| TagB of byte list
| Cmpl of 'x p
| Opt of __ p
| On of slice * 'x p
| Many0 of __ p
| Many1 of __ p
| Alt of 'x p * 'x p
| Vrfy of 'x p * ('x -> bool)
| Peek of 'x p
| GetI
| Idx of n
| PanicP

(** val tag_cmp : byte list -> byte list -> bool option **)

let rec tag_cmp t l =
  match t with
  | [] -> Some true
  | a :: t' ->
    (match l with
     | [] -> None
     | b :: l' -> if eqb0 a b then tag_cmp t' l' else Some false)

(** val many0_loop :
    (slice -> 'a1 res) -> byte list -> slice -> 'a1 list res **)

let rec many0_loop f fuel i =
  match f i with
  | Ok (r, a) ->
    if N.eqb (slen r) (slen i)
    then Err (i, KMany0)
    else (match fuel with
          | [] -> OutOfFuel
          | _ :: fuel' ->
            (match many0_loop f fuel' r with
             | Ok (r', l) -> Ok (r', (a :: l))
             | x -> x))
  | Err (_, _) -> Ok (i, [])
  | Fail (s, k) -> Fail (s, k)
  | Incomplete n0 -> Incomplete n0
  | Panic -> Panic
  | OutOfFuel -> OutOfFuel

(** val many1_loop :
    (slice -> 'a1 res) -> byte list -> slice -> 'a1 list res **)

let rec many1_loop f fuel i =
  match f i with
  | Ok (r, a) ->
    if N.eqb (slen r) (slen i)
    then Err (i, KMany1)
    else (match fuel with
          | [] -> OutOfFuel
          | _ :: fuel' ->
            (match many1_loop f fuel' r with
             | Ok (r', l) -> Ok (r', (a :: l))
             | x -> x))
  | Err (_, _) -> Ok (i, [])
  | Fail (s, k) -> Fail (s, k)
  | Incomplete n0 -> Incomplete n0
  | Panic -> Panic
  | OutOfFuel -> OutOfFuel

(** val many0_run : (slice -> 'a1 res) -> slice -> 'a1 list res **)

let many0_run f i =
  many0_loop f i.bytes i

(** val many1_run : (slice -> 'a1 res) -> slice -> 'a1 list res **)

let many1_run f i =
  match f i with
  | Ok (r, a) ->
    (match many1_loop f i.bytes r with
     | Ok (r', l) -> Ok (r', (a :: l))
     | x -> x)
  | Err (s, k) -> Err (s, k)
  | Fail (s, k) -> Fail (s, k)
  | Incomplete n0 -> Incomplete n0
  | Panic -> Panic
  | OutOfFuel -> OutOfFuel

(** val run : 'a1 p -> slice -> 'a1 res **)

let rec run p0 i =
  match p0 with
  | Ret a -> Ok (i, a)
  | Bind (p1, k) ->
    (match run (Obj.magic p1) i with
     | Ok (r, a) -> run (Obj.magic k a) r
     | x -> x)
  | ErrK k -> Err (i, k)
  | Take n0 ->
    (match split_at i.bytes n0 with
     | Inl p1 ->
       let (p2, r) = p1 in
       Ok ({ off = (N.add i.off n0); bytes = r },
       (Obj.magic { off = i.off; bytes = p2 }))
     | Inr m -> Incomplete (mk_needed m))
  | BeU k ->
    (match split_at i.bytes (N.of_nat k) with
     | Inl p1 ->
       let (p2, r) = p1 in
       Ok ({ off = (N.add i.off (N.of_nat k)); bytes = r },
       (Obj.magic be_val p2))
     | Inr m -> Incomplete (mk_needed m))
  | TagB t ->
    (match tag_cmp t i.bytes with
     | Some b ->
       if b then Ok ((sdrop i (lenN t)), (Obj.magic ())) else Err (i, KTag)
     | None -> Incomplete (mk_needed (N.sub (lenN t) (slen i))))
  | Cmpl p1 ->
    (match run p1 i with
     | Incomplete _ -> Err (i, KComplete)
     | x -> x)
  | Opt p1 ->
    (match run (Obj.magic p1) i with
     | Ok (r, a) -> Ok (r, (Obj.magic (Some a)))
     | Err (_, _) -> Ok (i, (Obj.magic None))
     | x -> x)
  | On (s, p1) -> (match run p1 s with
                   | Ok (_, a) -> Ok (i, a)
                   | x -> x)
  | Many0 p1 -> Obj.magic many0_run (fun j -> run (Obj.magic p1) j) i
  | Many1 p1 -> Obj.magic many1_run (fun j -> run (Obj.magic p1) j) i
  | Alt (p1, q) -> (match run p1 i with
                    | Err (_, _) -> run q i
                    | x -> x)
  | Vrfy (p1, f) ->
    (match run p1 i with
     | Ok (r, a) -> if f a then Ok (r, a) else Err (i, KVerify)
     | x -> x)
  | Peek p1 -> (match run p1 i with
                | Ok (_, a) -> Ok (i, a)
                | x -> x)
  | GetI -> Ok (i, (Obj.magic i))
  | Idx n0 ->
    (match split_at i.bytes n0 with
     | Inl p1 ->
       let (p2, r) = p1 in
       Ok ({ off = (N.add i.off n0); bytes = r },
       (Obj.magic { off = i.off; bytes = p2 }))
     | Inr _ -> Panic)
  | PanicP -> Panic

(** val pmap : 'a1 p -> ('a1 -> 'a2) -> 'a2 p **)

let pmap p0 f =
  Bind ((Obj.magic p0), (fun a -> Ret (Obj.magic f a)))

(** val length_data : n p -> slice p **)

let length_data f =
  Bind ((Obj.magic f), (Obj.magic (fun x -> Take x)))

(** val map_parser : slice p -> 'a1 p -> 'a1 p **)

let map_parser f g0 =
  Bind ((Obj.magic f), (fun s -> On ((Obj.magic s), g0)))

(** val cond : bool -> 'a1 p -> 'a1 option p **)

let cond b p0 =
  if b then pmap p0 (fun x -> Some x) else Ret None

(** val be_u8 : n p **)

let be_u8 =
  BeU (S O)

(** val be_u16 : n p **)

let be_u16 =
  BeU (S (S O))

(** val be_u24 : n p **)

let be_u24 =
  BeU (S (S (S O)))

(** val be_u32 : n p **)

let be_u32 =
  BeU (S (S (S (S O))))

(** val be_u64 : n p **)

let be_u64 =
  BeU (S (S (S (S (S (S (S (S O))))))))

(** val count_u8 : nat -> n list p **)

let rec count_u8 = function
| O -> Ret []
| S n' ->
  Bind ((Obj.magic be_u8), (fun x -> Bind ((Obj.magic count_u8 n'), (fun l ->
    Ret ((Obj.magic x) :: (Obj.magic l))))))

(** val length_count_u8_u8 : n list p **)

let length_count_u8_u8 =
  Bind ((Obj.magic be_u8), (fun c0 -> count_u8 (N.to_nat (Obj.magic c0))))

type tlsRecordHeader = { h_type : n; h_version : n; h_len : n }

type clientHelloC = { ch_version : n; ch_random : slice;
                      ch_sid : slice option; ch_ciphers : n list;
                      ch_comp : n list; ch_ext : slice option }

type serverHelloC = { sh_version : n; sh_random : slice;
                      sh_sid : slice option; sh_cipher : n; sh_comp : 
                      n; sh_ext : slice option }

type serverHello13C = { sh13_version : n; sh13_random : slice;
                        sh13_cipher : n; sh13_ext : slice option }

type helloRetryC = { hrr_version : n; hrr_cipher : n; hrr_ext : slice option }

type certRequestC = { cr_types : n list; cr_sigalgs : n list option;
                      cr_ca : slice list }

type clientKeyExchangeC =
| CkeDh of slice
| CkeEcdh of slice
| CkeUnknown of slice

type tlsMessageHandshake =
| HHelloRequest
| HClientHello of clientHelloC
| HServerHello of serverHelloC
| HServerHelloV13Draft18 of serverHello13C
| HNewSessionTicket of n * slice
| HEndOfEarlyData
| HHelloRetryRequest of helloRetryC
| HCertificate of slice list
| HServerKeyExchange of slice
| HCertificateRequest of certRequestC
| HServerDone of slice
| HCertificateVerify of slice
| HClientKeyExchange of clientKeyExchangeC
| HFinished of slice
| HCertificateStatus of n * slice
| HNextProtocol of slice * slice
| HKeyUpdate of n

type tlsMessage =
| MHandshake of tlsMessageHandshake
| MChangeCipherSpec
| MAlert of n * n
| MApplicationData of slice
| MHeartbeat of n * n * slice

type tlsPlaintext = { p_hdr : tlsRecordHeader; p_msg : tlsMessage list }

type tlsEncrypted = { e_hdr : tlsRecordHeader; e_blob : slice }

type tlsRawRecord = { r_hdr : tlsRecordHeader; r_data : slice }

type tlsExtension =
| ESNI of (n * slice) list
| EMaxFragmentLength of n
| EStatusRequest of (n * slice) option
| EEllipticCurves of n list
| EEcPointFormats of slice
| ESignatureAlgorithms of n list
| ERecordSizeLimit of n
| ESessionTicket of slice
| EKeyShareOld of slice
| EKeyShare of slice
| EPreSharedKey of slice
| EEarlyData of n option
| ESupportedVersions of n list
| ECookie of slice
| EPskExchangeModes of byte list
| EHeartbeat of n
| EALPN of slice list
| ESignedCertificateTimestamp of slice option
| EPadding of slice
| EEncryptThenMac
| EExtendedMasterSecret
| EOidFilters of (slice * slice) list
| EPostHandshakeAuth
| ENextProtocolNegotiation
| ERenegotiationInfo of slice
| EEncryptedServerName of n * n * slice * slice * slice
| EGrease of n * slice
| EUnknown of n * slice

type serverDHParams = { dh_p : slice; dh_g : slice; dh_ys : slice }

type explicitPrimeC = { ep_prime_p : slice; ep_a : slice; ep_b : slice;
                        ep_base : slice; ep_order : slice; ep_cofactor : 
                        slice }

type eCParametersContent =
| EcExplicitPrime of explicitPrimeC
| EcNamedGroup of n

type eCParameters = { ec_curve_type : n; ec_content : eCParametersContent }

type serverECDHParams = { ecdh_params : eCParameters; ecdh_public : slice }

type digitallySigned = { ds_alg : (n * n) option; ds_data : slice }

type sCT = { sct_version : n; sct_id : slice; sct_timestamp : n;
             sct_ext : slice; sct_sig : digitallySigned }

type dTLSRecordHeader = { d_type : n; d_version : n; d_epoch : n; d_seq : 
                          n; d_len : n }

type dTLSClientHelloC = { dch_version : n; dch_random : slice;
                          dch_sid : slice option; dch_cookie : slice;
                          dch_ciphers : n list; dch_comp : n list;
                          dch_ext : slice option }

type dTLSBody =
| DHelloRequest
| DClientHello of dTLSClientHelloC
| DHelloVerifyRequest of n * slice
| DServerHello of serverHelloC
| DNewSessionTicket of n * slice
| DHelloRetryRequest of helloRetryC
| DCertificate of slice list
| DServerKeyExchange of slice
| DCertificateRequest of certRequestC
| DServerDone of slice
| DCertificateVerify of slice
| DClientKeyExchange of clientKeyExchangeC
| DFinished of slice
| DCertificateStatus of n * slice
| DNextProtocol of slice * slice
| DFragment of slice

type dTLSMessageHandshake = { dhs_type : n; dhs_length : n; dhs_seq : 
                              n; dhs_frag_off : n; dhs_frag_len : n;
                              dhs_body : dTLSBody }

type dTLSMessage =
| DMHandshake of dTLSMessageHandshake
| DMChangeCipherSpec
| DMAlert of n * n
| DMApplicationData of slice
| DMHeartbeat of n * n * slice

type dTLSPlaintext = { dp_hdr : dTLSRecordHeader; dp_msgs : dTLSMessage list }

(** val str : string -> byte list **)

let str =
  list_byte_of_string

type sx =
| SN of n
| SS of slice
| SB of byte list
| SA of byte list
| SC of byte list * sx list
| SL of sx list

(** val uint_bytes : uint -> byte list **)

let rec uint_bytes = function
| Nil -> []
| D0 u0 -> X30 :: (uint_bytes u0)
| D1 u0 -> X31 :: (uint_bytes u0)
| D2 u0 -> X32 :: (uint_bytes u0)
| D3 u0 -> X33 :: (uint_bytes u0)
| D4 u0 -> X34 :: (uint_bytes u0)
| D5 u0 -> X35 :: (uint_bytes u0)
| D6 u0 -> X36 :: (uint_bytes u0)
| D7 u0 -> X37 :: (uint_bytes u0)
| D8 u0 -> X38 :: (uint_bytes u0)
| D9 u0 -> X39 :: (uint_bytes u0)

(** val dec : n -> byte list **)

let dec n0 =
  uint_bytes (N.to_uint n0)

(** val hexdigit : n -> byte **)

let hexdigit n0 =
  if N.ltb n0 (Npos (XO (XI (XO XH))))
  then n2b (N.add (Npos (XO (XO (XO (XO (XI XH)))))) n0)
  else n2b (N.add (Npos (XI (XI (XI (XO (XI (XO XH))))))) n0)

(** val hex : byte list -> byte list **)

let rec hex = function
| [] -> []
| b :: t ->
  (hexdigit (N.div (b2n b) (Npos (XO (XO (XO (XO XH))))))) :: ((hexdigit
                                                                 (N.modulo
                                                                   (b2n b)
                                                                   (Npos (XO
                                                                   (XO (XO
                                                                   (XO
                                                                   XH))))))) :: 
    (hex t))

(** val show_pos : slice -> byte list **)

let show_pos s =
  match s.bytes with
  | [] -> X5f :: []
  | _ :: _ -> dec s.off

(** val render : sx -> byte list **)

let rec render = function
| SN n0 -> dec n0
| SS s -> X23 :: (app (show_pos s) (X3a :: (hex s.bytes)))
| SB l -> X78 :: (hex l)
| SA a -> a
| SC (name, args) ->
  X28 :: (app name
           (let rec go = function
            | [] -> X29 :: []
            | a :: t -> X20 :: (app (render a) (go t))
            in go args))
| SL l ->
  X5b :: (let rec go first = function
          | [] -> X5d :: []
          | a :: t ->
            app (if first then [] else X20 :: [])
              (app (render a) (go false t))
          in go true l)

(** val c : string -> sx list -> sx **)

let c name args =
  SC ((str name), args)

(** val sopt : ('a1 -> sx) -> 'a1 option -> sx **)

let sopt f = function
| Some a ->
  c (String ((Ascii (true, true, false, false, true, false, true, false)),
    (String ((Ascii (true, true, true, true, false, true, true, false)),
    (String ((Ascii (true, false, true, true, false, true, true, false)),
    (String ((Ascii (true, false, true, false, false, true, true, false)),
    EmptyString)))))))) ((f a) :: [])
| None ->
  SA
    (str (String ((Ascii (false, true, true, true, false, false, true,
      false)), (String ((Ascii (true, true, true, true, false, true, true,
      false)), (String ((Ascii (false, true, true, true, false, true, true,
      false)), (String ((Ascii (true, false, true, false, false, true, true,
      false)), EmptyString)))))))))

(** val slist : ('a1 -> sx) -> 'a1 list -> sx **)

let slist f l =
  SL (map f l)

(** val ekind_name : ekind -> byte list **)

let ekind_name k =
  str
    (match k with
     | KTag ->
       String ((Ascii (false, false, true, false, true, false, true, false)),
         (String ((Ascii (true, false, false, false, false, true, true,
         false)), (String ((Ascii (true, true, true, false, false, true,
         true, false)), EmptyString)))))
     | KVerify ->
       String ((Ascii (false, true, true, false, true, false, true, false)),
         (String ((Ascii (true, false, true, false, false, true, true,
         false)), (String ((Ascii (false, true, false, false, true, true,
         true, false)), (String ((Ascii (true, false, false, true, false,
         true, true, false)), (String ((Ascii (false, true, true, false,
         false, true, true, false)), (String ((Ascii (true, false, false,
         true, true, true, true, false)), EmptyString)))))))))))
     | KSwitch ->
       String ((Ascii (true, true, false, false, true, false, true, false)),
         (String ((Ascii (true, true, true, false, true, true, true, false)),
         (String ((Ascii (true, false, false, true, false, true, true,
         false)), (String ((Ascii (false, false, true, false, true, true,
         true, false)), (String ((Ascii (true, true, false, false, false,
         true, true, false)), (String ((Ascii (false, false, false, true,
         false, true, true, false)), EmptyString)))))))))))
     | KTooLarge ->
       String ((Ascii (false, false, true, false, true, false, true, false)),
         (String ((Ascii (true, true, true, true, false, true, true, false)),
         (String ((Ascii (true, true, true, true, false, true, true, false)),
         (String ((Ascii (false, false, true, true, false, false, true,
         false)), (String ((Ascii (true, false, false, false, false, true,
         true, false)), (String ((Ascii (false, true, false, false, true,
         true, true, false)), (String ((Ascii (true, true, true, false,
         false, true, true, false)), (String ((Ascii (true, false, true,
         false, false, true, true, false)), EmptyString)))))))))))))))
     | KLengthValue ->
       String ((Ascii (false, false, true, true, false, false, true, false)),
         (String ((Ascii (true, false, true, false, false, true, true,
         false)), (String ((Ascii (false, true, true, true, false, true,
         true, false)), (String ((Ascii (true, true, true, false, false,
         true, true, false)), (String ((Ascii (false, false, true, false,
         true, true, true, false)), (String ((Ascii (false, false, false,
         true, false, true, true, false)), (String ((Ascii (false, true,
         true, false, true, false, true, false)), (String ((Ascii (true,
         false, false, false, false, true, true, false)), (String ((Ascii
         (false, false, true, true, false, true, true, false)), (String
         ((Ascii (true, false, true, false, true, true, true, false)),
         (String ((Ascii (true, false, true, false, false, true, true,
         false)), EmptyString)))))))))))))))))))))
     | KComplete ->
       String ((Ascii (true, true, false, false, false, false, true, false)),
         (String ((Ascii (true, true, true, true, false, true, true, false)),
         (String ((Ascii (true, false, true, true, false, true, true,
         false)), (String ((Ascii (false, false, false, false, true, true,
         true, false)), (String ((Ascii (false, false, true, true, false,
         true, true, false)), (String ((Ascii (true, false, true, false,
         false, true, true, false)), (String ((Ascii (false, false, true,
         false, true, true, true, false)), (String ((Ascii (true, false,
         true, false, false, true, true, false)), EmptyString)))))))))))))))
     | KMany0 ->
       String ((Ascii (true, false, true, true, false, false, true, false)),
         (String ((Ascii (true, false, false, false, false, true, true,
         false)), (String ((Ascii (false, true, true, true, false, true,
         true, false)), (String ((Ascii (true, false, false, true, true,
         true, true, false)), (String ((Ascii (false, false, false, false,
         true, true, false, false)), EmptyString)))))))))
     | KMany1 ->
       String ((Ascii (true, false, true, true, false, false, true, false)),
         (String ((Ascii (true, false, false, false, false, true, true,
         false)), (String ((Ascii (false, true, true, true, false, true,
         true, false)), (String ((Ascii (true, false, false, true, true,
         true, true, false)), (String ((Ascii (true, false, false, false,
         true, true, false, false)), EmptyString)))))))))
     | KCount ->
       String ((Ascii (true, true, false, false, false, false, true, false)),
         (String ((Ascii (true, true, true, true, false, true, true, false)),
         (String ((Ascii (true, false, true, false, true, true, true,
         false)), (String ((Ascii (false, true, true, true, false, true,
         true, false)), (String ((Ascii (false, false, true, false, true,
         true, true, false)), EmptyString)))))))))
     | KAlt ->
       String ((Ascii (true, false, false, false, false, false, true,
         false)), (String ((Ascii (false, false, true, true, false, true,
         true, false)), (String ((Ascii (false, false, true, false, true,
         true, true, false)), EmptyString)))))
     | KNonEmpty ->
       String ((Ascii (false, true, true, true, false, false, true, false)),
         (String ((Ascii (true, true, true, true, false, true, true, false)),
         (String ((Ascii (false, true, true, true, false, true, true,
         false)), (String ((Ascii (true, false, true, false, false, false,
         true, false)), (String ((Ascii (true, false, true, true, false,
         true, true, false)), (String ((Ascii (false, false, false, false,
         true, true, true, false)), (String ((Ascii (false, false, true,
         false, true, true, true, false)), (String ((Ascii (true, false,
         false, true, true, true, true, false)), EmptyString))))))))))))))))

(** val show_at : slice -> byte list **)

let show_at s =
  X40 :: (app (show_pos s) (X2b :: (dec (slen s))))

(** val show_res : ('a1 -> sx) -> 'a1 res -> byte list **)

let show_res f = function
| Ok (rem, a) ->
  app
    (str (String ((Ascii (false, false, false, true, false, true, false,
      false)), (String ((Ascii (true, true, true, true, false, true, true,
      false)), (String ((Ascii (true, true, false, true, false, true, true,
      false)), (String ((Ascii (false, false, false, false, false, true,
      false, false)), EmptyString)))))))))
    (app (show_at rem) (X20 :: (app (render (f a)) (X29 :: []))))
| Err (s, k) ->
  app
    (str (String ((Ascii (false, false, false, true, false, true, false,
      false)), (String ((Ascii (true, false, true, false, false, true, true,
      false)), (String ((Ascii (false, true, false, false, true, true, true,
      false)), (String ((Ascii (false, true, false, false, true, true, true,
      false)), (String ((Ascii (false, false, false, false, false, true,
      false, false)), EmptyString)))))))))))
    (app (ekind_name k) (X20 :: (app (show_at s) (X29 :: []))))
| Fail (s, k) ->
  app
    (str (String ((Ascii (false, false, false, true, false, true, false,
      false)), (String ((Ascii (false, true, true, false, false, true, true,
      false)), (String ((Ascii (true, false, false, false, false, true, true,
      false)), (String ((Ascii (true, false, false, true, false, true, true,
      false)), (String ((Ascii (false, false, true, true, false, true, true,
      false)), (String ((Ascii (false, false, false, false, false, true,
      false, false)), EmptyString)))))))))))))
    (app (ekind_name k) (X20 :: (app (show_at s) (X29 :: []))))
| Incomplete nd ->
  (match nd with
   | Unknown ->
     str (String ((Ascii (false, false, false, true, false, true, false,
       false)), (String ((Ascii (true, false, false, true, false, true, true,
       false)), (String ((Ascii (false, true, true, true, false, true, true,
       false)), (String ((Ascii (true, true, false, false, false, true, true,
       false)), (String ((Ascii (false, false, false, false, false, true,
       false, false)), (String ((Ascii (true, true, true, true, true, true,
       false, false)), (String ((Ascii (true, false, false, true, false,
       true, false, false)), EmptyString))))))))))))))
   | Size n0 ->
     app
       (str (String ((Ascii (false, false, false, true, false, true, false,
         false)), (String ((Ascii (true, false, false, true, false, true,
         true, false)), (String ((Ascii (false, true, true, true, false,
         true, true, false)), (String ((Ascii (true, true, false, false,
         false, true, true, false)), (String ((Ascii (false, false, false,
         false, false, true, false, false)), EmptyString)))))))))))
       (app (dec n0) (X29 :: [])))
| Panic ->
  str (String ((Ascii (false, false, false, true, false, true, false,
    false)), (String ((Ascii (false, false, false, false, true, true, true,
    false)), (String ((Ascii (true, false, false, false, false, true, true,
    false)), (String ((Ascii (false, true, true, true, false, true, true,
    false)), (String ((Ascii (true, false, false, true, false, true, true,
    false)), (String ((Ascii (true, true, false, false, false, true, true,
    false)), (String ((Ascii (true, false, false, true, false, true, false,
    false)), EmptyString))))))))))))))
| OutOfFuel ->
  str (String ((Ascii (false, false, false, true, false, true, false,
    false)), (String ((Ascii (false, true, true, false, false, true, true,
    false)), (String ((Ascii (true, false, true, false, true, true, true,
    false)), (String ((Ascii (true, false, true, false, false, true, true,
    false)), (String ((Ascii (false, false, true, true, false, true, true,
    false)), (String ((Ascii (true, false, false, true, false, true, false,
    false)), EmptyString))))))))))))

(** val sx_hdr : tlsRecordHeader -> sx **)

let sx_hdr h =
  c (String ((Ascii (false, false, false, true, false, false, true, false)),
    (String ((Ascii (false, false, true, false, false, true, true, false)),
    (String ((Ascii (false, true, false, false, true, true, true, false)),
    EmptyString)))))) ((SN h.h_type) :: ((SN h.h_version) :: ((SN
    h.h_len) :: [])))

(** val sx_cke : clientKeyExchangeC -> sx **)

let sx_cke = function
| CkeDh s ->
  c (String ((Ascii (false, false, true, false, false, false, true, false)),
    (String ((Ascii (false, false, false, true, false, true, true, false)),
    EmptyString)))) ((SS s) :: [])
| CkeEcdh s ->
  c (String ((Ascii (true, false, true, false, false, false, true, false)),
    (String ((Ascii (true, true, false, false, false, true, true, false)),
    (String ((Ascii (false, false, true, false, false, true, true, false)),
    (String ((Ascii (false, false, false, true, false, true, true, false)),
    EmptyString)))))))) ((SS s) :: [])
| CkeUnknown s ->
  c (String ((Ascii (true, false, true, false, true, false, true, false)),
    (String ((Ascii (false, true, true, true, false, true, true, false)),
    (String ((Ascii (true, true, false, true, false, true, true, false)),
    (String ((Ascii (false, true, true, true, false, true, true, false)),
    (String ((Ascii (true, true, true, true, false, true, true, false)),
    (String ((Ascii (true, true, true, false, true, true, true, false)),
    (String ((Ascii (false, true, true, true, false, true, true, false)),
    EmptyString)))))))))))))) ((SS s) :: [])

(** val sx_ch : clientHelloC -> sx **)

let sx_ch c0 =
  c (String ((Ascii (true, true, false, false, false, false, true, false)),
    (String ((Ascii (false, false, true, true, false, true, true, false)),
    (String ((Ascii (true, false, false, true, false, true, true, false)),
    (String ((Ascii (true, false, true, false, false, true, true, false)),
    (String ((Ascii (false, true, true, true, false, true, true, false)),
    (String ((Ascii (false, false, true, false, true, true, true, false)),
    (String ((Ascii (false, false, false, true, false, false, true, false)),
    (String ((Ascii (true, false, true, false, false, true, true, false)),
    (String ((Ascii (false, false, true, true, false, true, true, false)),
    (String ((Ascii (false, false, true, true, false, true, true, false)),
    (String ((Ascii (true, true, true, true, false, true, true, false)),
    EmptyString)))))))))))))))))))))) ((SN c0.ch_version) :: ((SS
    c0.ch_random) :: ((sopt (fun x -> SS x) c0.ch_sid) :: ((slist (fun x ->
                                                             SN x)
                                                             c0.ch_ciphers) :: (
    (slist (fun x -> SN x) c0.ch_comp) :: ((sopt (fun x -> SS x) c0.ch_ext) :: []))))))

(** val sx_sh : serverHelloC -> sx **)

let sx_sh c0 =
  c (String ((Ascii (true, true, false, false, true, false, true, false)),
    (String ((Ascii (true, false, true, false, false, true, true, false)),
    (String ((Ascii (false, true, false, false, true, true, true, false)),
    (String ((Ascii (false, true, true, false, true, true, true, false)),
    (String ((Ascii (true, false, true, false, false, true, true, false)),
    (String ((Ascii (false, true, false, false, true, true, true, false)),
    (String ((Ascii (false, false, false, true, false, false, true, false)),
    (String ((Ascii (true, false, true, false, false, true, true, false)),
    (String ((Ascii (false, false, true, true, false, true, true, false)),
    (String ((Ascii (false, false, true, true, false, true, true, false)),
    (String ((Ascii (true, true, true, true, false, true, true, false)),
    EmptyString)))))))))))))))))))))) ((SN c0.sh_version) :: ((SS
    c0.sh_random) :: ((sopt (fun x -> SS x) c0.sh_sid) :: ((SN
    c0.sh_cipher) :: ((SN
    c0.sh_comp) :: ((sopt (fun x -> SS x) c0.sh_ext) :: []))))))

(** val sx_hrr : helloRetryC -> sx **)

let sx_hrr c0 =
  c (String ((Ascii (false, false, false, true, false, false, true, false)),
    (String ((Ascii (true, false, true, false, false, true, true, false)),
    (String ((Ascii (false, false, true, true, false, true, true, false)),
    (String ((Ascii (false, false, true, true, false, true, true, false)),
    (String ((Ascii (true, true, true, true, false, true, true, false)),
    (String ((Ascii (false, true, false, false, true, false, true, false)),
    (String ((Ascii (true, false, true, false, false, true, true, false)),
    (String ((Ascii (false, false, true, false, true, true, true, false)),
    (String ((Ascii (false, true, false, false, true, true, true, false)),
    (String ((Ascii (true, false, false, true, true, true, true, false)),
    (String ((Ascii (false, true, false, false, true, false, true, false)),
    (String ((Ascii (true, false, true, false, false, true, true, false)),
    (String ((Ascii (true, false, false, false, true, true, true, false)),
    (String ((Ascii (true, false, true, false, true, true, true, false)),
    (String ((Ascii (true, false, true, false, false, true, true, false)),
    (String ((Ascii (true, true, false, false, true, true, true, false)),
    (String ((Ascii (false, false, true, false, true, true, true, false)),
    EmptyString)))))))))))))))))))))))))))))))))) ((SN
    c0.hrr_version) :: ((SN
    c0.hrr_cipher) :: ((sopt (fun x -> SS x) c0.hrr_ext) :: [])))

(** val sx_cr : certRequestC -> sx **)

let sx_cr c0 =
  c (String ((Ascii (true, true, false, false, false, false, true, false)),
    (String ((Ascii (true, false, true, false, false, true, true, false)),
    (String ((Ascii (false, true, false, false, true, true, true, false)),
    (String ((Ascii (false, false, true, false, true, true, true, false)),
    (String ((Ascii (true, false, false, true, false, true, true, false)),
    (String ((Ascii (false, true, true, false, false, true, true, false)),
    (String ((Ascii (true, false, false, true, false, true, true, false)),
    (String ((Ascii (true, true, false, false, false, true, true, false)),
    (String ((Ascii (true, false, false, false, false, true, true, false)),
    (String ((Ascii (false, false, true, false, true, true, true, false)),
    (String ((Ascii (true, false, true, false, false, true, true, false)),
    (String ((Ascii (false, true, false, false, true, false, true, false)),
    (String ((Ascii (true, false, true, false, false, true, true, false)),
    (String ((Ascii (true, false, false, false, true, true, true, false)),
    (String ((Ascii (true, false, true, false, true, true, true, false)),
    (String ((Ascii (true, false, true, false, false, true, true, false)),
    (String ((Ascii (true, true, false, false, true, true, true, false)),
    (String ((Ascii (false, false, true, false, true, true, true, false)),
    EmptyString))))))))))))))))))))))))))))))))))))
    ((slist (fun x -> SN x) c0.cr_types) :: ((sopt (slist (fun x -> SN x))
                                               c0.cr_sigalgs) :: ((slist
                                                                    (fun x ->
                                                                    SS x)
                                                                    c0.cr_ca) :: [])))

(** val sx_hs : tlsMessageHandshake -> sx **)

let sx_hs = function
| HHelloRequest ->
  c (String ((Ascii (false, false, false, true, false, false, true, false)),
    (String ((Ascii (true, false, true, false, false, true, true, false)),
    (String ((Ascii (false, false, true, true, false, true, true, false)),
    (String ((Ascii (false, false, true, true, false, true, true, false)),
    (String ((Ascii (true, true, true, true, false, true, true, false)),
    (String ((Ascii (false, true, false, false, true, false, true, false)),
    (String ((Ascii (true, false, true, false, false, true, true, false)),
    (String ((Ascii (true, false, false, false, true, true, true, false)),
    (String ((Ascii (true, false, true, false, true, true, true, false)),
    (String ((Ascii (true, false, true, false, false, true, true, false)),
    (String ((Ascii (true, true, false, false, true, true, true, false)),
    (String ((Ascii (false, false, true, false, true, true, true, false)),
    EmptyString)))))))))))))))))))))))) []
| HClientHello c0 -> sx_ch c0
| HServerHello c0 -> sx_sh c0
| HServerHelloV13Draft18 c0 ->
  c (String ((Ascii (true, true, false, false, true, false, true, false)),
    (String ((Ascii (true, false, true, false, false, true, true, false)),
    (String ((Ascii (false, true, false, false, true, true, true, false)),
    (String ((Ascii (false, true, true, false, true, true, true, false)),
    (String ((Ascii (true, false, true, false, false, true, true, false)),
    (String ((Ascii (false, true, false, false, true, true, true, false)),
    (String ((Ascii (false, false, false, true, false, false, true, false)),
    (String ((Ascii (true, false, true, false, false, true, true, false)),
    (String ((Ascii (false, false, true, true, false, true, true, false)),
    (String ((Ascii (false, false, true, true, false, true, true, false)),
    (String ((Ascii (true, true, true, true, false, true, true, false)),
    (String ((Ascii (false, true, true, false, true, false, true, false)),
    (String ((Ascii (true, false, false, false, true, true, false, false)),
    (String ((Ascii (true, true, false, false, true, true, false, false)),
    (String ((Ascii (false, false, true, false, false, false, true, false)),
    (String ((Ascii (false, true, false, false, true, true, true, false)),
    (String ((Ascii (true, false, false, false, false, true, true, false)),
    (String ((Ascii (false, true, true, false, false, true, true, false)),
    (String ((Ascii (false, false, true, false, true, true, true, false)),
    (String ((Ascii (true, false, false, false, true, true, false, false)),
    (String ((Ascii (false, false, false, true, true, true, false, false)),
    EmptyString)))))))))))))))))))))))))))))))))))))))))) ((SN
    c0.sh13_version) :: ((SS c0.sh13_random) :: ((SN
    c0.sh13_cipher) :: ((sopt (fun x -> SS x) c0.sh13_ext) :: []))))
| HNewSessionTicket (h0, t) ->
  c (String ((Ascii (false, true, true, true, false, false, true, false)),
    (String ((Ascii (true, false, true, false, false, true, true, false)),
    (String ((Ascii (true, true, true, false, true, true, true, false)),
    (String ((Ascii (true, true, false, false, true, false, true, false)),
    (String ((Ascii (true, false, true, false, false, true, true, false)),
    (String ((Ascii (true, true, false, false, true, true, true, false)),
    (String ((Ascii (true, true, false, false, true, true, true, false)),
    (String ((Ascii (true, false, false, true, false, true, true, false)),
    (String ((Ascii (true, true, true, true, false, true, true, false)),
    (String ((Ascii (false, true, true, true, false, true, true, false)),
    (String ((Ascii (false, false, true, false, true, false, true, false)),
    (String ((Ascii (true, false, false, true, false, true, true, false)),
    (String ((Ascii (true, true, false, false, false, true, true, false)),
    (String ((Ascii (true, true, false, true, false, true, true, false)),
    (String ((Ascii (true, false, true, false, false, true, true, false)),
    (String ((Ascii (false, false, true, false, true, true, true, false)),
    EmptyString)))))))))))))))))))))))))))))))) ((SN h0) :: ((SS t) :: []))
| HEndOfEarlyData ->
  c (String ((Ascii (true, false, true, false, false, false, true, false)),
    (String ((Ascii (false, true, true, true, false, true, true, false)),
    (String ((Ascii (false, false, true, false, false, true, true, false)),
    (String ((Ascii (true, true, true, true, false, false, true, false)),
    (String ((Ascii (false, true, true, false, false, true, true, false)),
    (String ((Ascii (true, false, true, false, false, false, true, false)),
    (String ((Ascii (true, false, false, false, false, true, true, false)),
    (String ((Ascii (false, true, false, false, true, true, true, false)),
    (String ((Ascii (false, false, true, true, false, true, true, false)),
    (String ((Ascii (true, false, false, true, true, true, true, false)),
    (String ((Ascii (false, false, true, false, false, false, true, false)),
    (String ((Ascii (true, false, false, false, false, true, true, false)),
    (String ((Ascii (false, false, true, false, true, true, true, false)),
    (String ((Ascii (true, false, false, false, false, true, true, false)),
    EmptyString)))))))))))))))))))))))))))) []
| HHelloRetryRequest c0 -> sx_hrr c0
| HCertificate l ->
  c (String ((Ascii (true, true, false, false, false, false, true, false)),
    (String ((Ascii (true, false, true, false, false, true, true, false)),
    (String ((Ascii (false, true, false, false, true, true, true, false)),
    (String ((Ascii (false, false, true, false, true, true, true, false)),
    (String ((Ascii (true, false, false, true, false, true, true, false)),
    (String ((Ascii (false, true, true, false, false, true, true, false)),
    (String ((Ascii (true, false, false, true, false, true, true, false)),
    (String ((Ascii (true, true, false, false, false, true, true, false)),
    (String ((Ascii (true, false, false, false, false, true, true, false)),
    (String ((Ascii (false, false, true, false, true, true, true, false)),
    (String ((Ascii (true, false, true, false, false, true, true, false)),
    EmptyString)))))))))))))))))))))) ((slist (fun x -> SS x) l) :: [])
| HServerKeyExchange s ->
  c (String ((Ascii (true, true, false, false, true, false, true, false)),
    (String ((Ascii (true, false, true, false, false, true, true, false)),
    (String ((Ascii (false, true, false, false, true, true, true, false)),
    (String ((Ascii (false, true, true, false, true, true, true, false)),
    (String ((Ascii (true, false, true, false, false, true, true, false)),
    (String ((Ascii (false, true, false, false, true, true, true, false)),
    (String ((Ascii (true, true, false, true, false, false, true, false)),
    (String ((Ascii (true, false, true, false, false, true, true, false)),
    (String ((Ascii (true, false, false, true, true, true, true, false)),
    (String ((Ascii (true, false, true, false, false, false, true, false)),
    (String ((Ascii (false, false, false, true, true, true, true, false)),
    (String ((Ascii (true, true, false, false, false, true, true, false)),
    (String ((Ascii (false, false, false, true, false, true, true, false)),
    (String ((Ascii (true, false, false, false, false, true, true, false)),
    (String ((Ascii (false, true, true, true, false, true, true, false)),
    (String ((Ascii (true, true, true, false, false, true, true, false)),
    (String ((Ascii (true, false, true, false, false, true, true, false)),
    EmptyString)))))))))))))))))))))))))))))))))) ((SS s) :: [])
| HCertificateRequest c0 -> sx_cr c0
| HServerDone s ->
  c (String ((Ascii (true, true, false, false, true, false, true, false)),
    (String ((Ascii (true, false, true, false, false, true, true, false)),
    (String ((Ascii (false, true, false, false, true, true, true, false)),
    (String ((Ascii (false, true, true, false, true, true, true, false)),
    (String ((Ascii (true, false, true, false, false, true, true, false)),
    (String ((Ascii (false, true, false, false, true, true, true, false)),
    (String ((Ascii (false, false, true, false, false, false, true, false)),
    (String ((Ascii (true, true, true, true, false, true, true, false)),
    (String ((Ascii (false, true, true, true, false, true, true, false)),
    (String ((Ascii (true, false, true, false, false, true, true, false)),
    EmptyString)))))))))))))))))))) ((SS s) :: [])
| HCertificateVerify s ->
  c (String ((Ascii (true, true, false, false, false, false, true, false)),
    (String ((Ascii (true, false, true, false, false, true, true, false)),
    (String ((Ascii (false, true, false, false, true, true, true, false)),
    (String ((Ascii (false, false, true, false, true, true, true, false)),
    (String ((Ascii (true, false, false, true, false, true, true, false)),
    (String ((Ascii (false, true, true, false, false, true, true, false)),
    (String ((Ascii (true, false, false, true, false, true, true, false)),
    (String ((Ascii (true, true, false, false, false, true, true, false)),
    (String ((Ascii (true, false, false, false, false, true, true, false)),
    (String ((Ascii (false, false, true, false, true, true, true, false)),
    (String ((Ascii (true, false, true, false, false, true, true, false)),
    (String ((Ascii (false, true, true, false, true, false, true, false)),
    (String ((Ascii (true, false, true, false, false, true, true, false)),
    (String ((Ascii (false, true, false, false, true, true, true, false)),
    (String ((Ascii (true, false, false, true, false, true, true, false)),
    (String ((Ascii (false, true, true, false, false, true, true, false)),
    (String ((Ascii (true, false, false, true, true, true, true, false)),
    EmptyString)))))))))))))))))))))))))))))))))) ((SS s) :: [])
| HClientKeyExchange c0 ->
  c (String ((Ascii (true, true, false, false, false, false, true, false)),
    (String ((Ascii (false, false, true, true, false, true, true, false)),
    (String ((Ascii (true, false, false, true, false, true, true, false)),
    (String ((Ascii (true, false, true, false, false, true, true, false)),
    (String ((Ascii (false, true, true, true, false, true, true, false)),
    (String ((Ascii (false, false, true, false, true, true, true, false)),
    (String ((Ascii (true, true, false, true, false, false, true, false)),
    (String ((Ascii (true, false, true, false, false, true, true, false)),
    (String ((Ascii (true, false, false, true, true, true, true, false)),
    (String ((Ascii (true, false, true, false, false, false, true, false)),
    (String ((Ascii (false, false, false, true, true, true, true, false)),
    (String ((Ascii (true, true, false, false, false, true, true, false)),
    (String ((Ascii (false, false, false, true, false, true, true, false)),
    (String ((Ascii (true, false, false, false, false, true, true, false)),
    (String ((Ascii (false, true, true, true, false, true, true, false)),
    (String ((Ascii (true, true, true, false, false, true, true, false)),
    (String ((Ascii (true, false, true, false, false, true, true, false)),
    EmptyString)))))))))))))))))))))))))))))))))) ((sx_cke c0) :: [])
| HFinished s ->
  c (String ((Ascii (false, true, true, false, false, false, true, false)),
    (String ((Ascii (true, false, false, true, false, true, true, false)),
    (String ((Ascii (false, true, true, true, false, true, true, false)),
    (String ((Ascii (true, false, false, true, false, true, true, false)),
    (String ((Ascii (true, true, false, false, true, true, true, false)),
    (String ((Ascii (false, false, false, true, false, true, true, false)),
    (String ((Ascii (true, false, true, false, false, true, true, false)),
    (String ((Ascii (false, false, true, false, false, true, true, false)),
    EmptyString)))))))))))))))) ((SS s) :: [])
| HCertificateStatus (t, b) ->
  c (String ((Ascii (true, true, false, false, false, false, true, false)),
    (String ((Ascii (true, false, true, false, false, true, true, false)),
    (String ((Ascii (false, true, false, false, true, true, true, false)),
    (String ((Ascii (false, false, true, false, true, true, true, false)),
    (String ((Ascii (true, false, false, true, false, true, true, false)),
    (String ((Ascii (false, true, true, false, false, true, true, false)),
    (String ((Ascii (true, false, false, true, false, true, true, false)),
    (String ((Ascii (true, true, false, false, false, true, true, false)),
    (String ((Ascii (true, false, false, false, false, true, true, false)),
    (String ((Ascii (false, false, true, false, true, true, true, false)),
    (String ((Ascii (true, false, true, false, false, true, true, false)),
    (String ((Ascii (true, true, false, false, true, false, true, false)),
    (String ((Ascii (false, false, true, false, true, true, true, false)),
    (String ((Ascii (true, false, false, false, false, true, true, false)),
    (String ((Ascii (false, false, true, false, true, true, true, false)),
    (String ((Ascii (true, false, true, false, true, true, true, false)),
    (String ((Ascii (true, true, false, false, true, true, true, false)),
    EmptyString)))))))))))))))))))))))))))))))))) ((SN t) :: ((SS b) :: []))
| HNextProtocol (a, b) ->
  c (String ((Ascii (false, true, true, true, false, false, true, false)),
    (String ((Ascii (true, false, true, false, false, true, true, false)),
    (String ((Ascii (false, false, false, true, true, true, true, false)),
    (String ((Ascii (false, false, true, false, true, true, true, false)),
    (String ((Ascii (false, false, false, false, true, false, true, false)),
    (String ((Ascii (false, true, false, false, true, true, true, false)),
    (String ((Ascii (true, true, true, true, false, true, true, false)),
    (String ((Ascii (false, false, true, false, true, true, true, false)),
    (String ((Ascii (true, true, true, true, false, true, true, false)),
    (String ((Ascii (true, true, false, false, false, true, true, false)),
    (String ((Ascii (true, true, true, true, false, true, true, false)),
    (String ((Ascii (false, false, true, true, false, true, true, false)),
    EmptyString)))))))))))))))))))))))) ((SS a) :: ((SS b) :: []))
| HKeyUpdate v ->
  c (String ((Ascii (true, true, false, true, false, false, true, false)),
    (String ((Ascii (true, false, true, false, false, true, true, false)),
    (String ((Ascii (true, false, false, true, true, true, true, false)),
    (String ((Ascii (true, false, true, false, true, false, true, false)),
    (String ((Ascii (false, false, false, false, true, true, true, false)),
    (String ((Ascii (false, false, true, false, false, true, true, false)),
    (String ((Ascii (true, false, false, false, false, true, true, false)),
    (String ((Ascii (false, false, true, false, true, true, true, false)),
    (String ((Ascii (true, false, true, false, false, true, true, false)),
    EmptyString)))))))))))))))))) ((SN v) :: [])

(** val sx_msg : tlsMessage -> sx **)

let sx_msg = function
| MHandshake h ->
  c (String ((Ascii (false, false, false, true, false, false, true, false)),
    (String ((Ascii (true, false, false, false, false, true, true, false)),
    (String ((Ascii (false, true, true, true, false, true, true, false)),
    (String ((Ascii (false, false, true, false, false, true, true, false)),
    (String ((Ascii (true, true, false, false, true, true, true, false)),
    (String ((Ascii (false, false, false, true, false, true, true, false)),
    (String ((Ascii (true, false, false, false, false, true, true, false)),
    (String ((Ascii (true, true, false, true, false, true, true, false)),
    (String ((Ascii (true, false, true, false, false, true, true, false)),
    EmptyString)))))))))))))))))) ((sx_hs h) :: [])
| MChangeCipherSpec ->
  c (String ((Ascii (true, true, false, false, false, false, true, false)),
    (String ((Ascii (false, false, false, true, false, true, true, false)),
    (String ((Ascii (true, false, false, false, false, true, true, false)),
    (String ((Ascii (false, true, true, true, false, true, true, false)),
    (String ((Ascii (true, true, true, false, false, true, true, false)),
    (String ((Ascii (true, false, true, false, false, true, true, false)),
    (String ((Ascii (true, true, false, false, false, false, true, false)),
    (String ((Ascii (true, false, false, true, false, true, true, false)),
    (String ((Ascii (false, false, false, false, true, true, true, false)),
    (String ((Ascii (false, false, false, true, false, true, true, false)),
    (String ((Ascii (true, false, true, false, false, true, true, false)),
    (String ((Ascii (false, true, false, false, true, true, true, false)),
    (String ((Ascii (true, true, false, false, true, false, true, false)),
    (String ((Ascii (false, false, false, false, true, true, true, false)),
    (String ((Ascii (true, false, true, false, false, true, true, false)),
    (String ((Ascii (true, true, false, false, false, true, true, false)),
    EmptyString)))))))))))))))))))))))))))))))) []
| MAlert (s, c0) ->
  c (String ((Ascii (true, false, false, false, false, false, true, false)),
    (String ((Ascii (false, false, true, true, false, true, true, false)),
    (String ((Ascii (true, false, true, false, false, true, true, false)),
    (String ((Ascii (false, true, false, false, true, true, true, false)),
    (String ((Ascii (false, false, true, false, true, true, true, false)),
    EmptyString)))))))))) ((SN s) :: ((SN c0) :: []))
| MApplicationData b ->
  c (String ((Ascii (true, false, false, false, false, false, true, false)),
    (String ((Ascii (false, false, false, false, true, true, true, false)),
    (String ((Ascii (false, false, false, false, true, true, true, false)),
    (String ((Ascii (false, false, true, true, false, true, true, false)),
    (String ((Ascii (true, false, false, true, false, true, true, false)),
    (String ((Ascii (true, true, false, false, false, true, true, false)),
    (String ((Ascii (true, false, false, false, false, true, true, false)),
    (String ((Ascii (false, false, true, false, true, true, true, false)),
    (String ((Ascii (true, false, false, true, false, true, true, false)),
    (String ((Ascii (true, true, true, true, false, true, true, false)),
    (String ((Ascii (false, true, true, true, false, true, true, false)),
    (String ((Ascii (false, false, true, false, false, false, true, false)),
    (String ((Ascii (true, false, false, false, false, true, true, false)),
    (String ((Ascii (false, false, true, false, true, true, true, false)),
    (String ((Ascii (true, false, false, false, false, true, true, false)),
    EmptyString)))))))))))))))))))))))))))))) ((SS b) :: [])
| MHeartbeat (t, l, p0) ->
  c (String ((Ascii (false, false, false, true, false, false, true, false)),
    (String ((Ascii (true, false, true, false, false, true, true, false)),
    (String ((Ascii (true, false, false, false, false, true, true, false)),
    (String ((Ascii (false, true, false, false, true, true, true, false)),
    (String ((Ascii (false, false, true, false, true, true, true, false)),
    (String ((Ascii (false, true, false, false, false, true, true, false)),
    (String ((Ascii (true, false, true, false, false, true, true, false)),
    (String ((Ascii (true, false, false, false, false, true, true, false)),
    (String ((Ascii (false, false, true, false, true, true, true, false)),
    EmptyString)))))))))))))))))) ((SN t) :: ((SN l) :: ((SS p0) :: [])))

(** val sx_plain : tlsPlaintext -> sx **)

let sx_plain p0 =
  c (String ((Ascii (false, false, false, false, true, false, true, false)),
    (String ((Ascii (false, false, true, true, false, true, true, false)),
    (String ((Ascii (true, false, false, false, false, true, true, false)),
    (String ((Ascii (true, false, false, true, false, true, true, false)),
    (String ((Ascii (false, true, true, true, false, true, true, false)),
    (String ((Ascii (false, false, true, false, true, true, true, false)),
    (String ((Ascii (true, false, true, false, false, true, true, false)),
    (String ((Ascii (false, false, false, true, true, true, true, false)),
    (String ((Ascii (false, false, true, false, true, true, true, false)),
    EmptyString))))))))))))))))))
    ((sx_hdr p0.p_hdr) :: ((slist sx_msg p0.p_msg) :: []))

(** val sx_enc : tlsEncrypted -> sx **)

let sx_enc p0 =
  c (String ((Ascii (true, false, true, false, false, false, true, false)),
    (String ((Ascii (false, true, true, true, false, true, true, false)),
    (String ((Ascii (true, true, false, false, false, true, true, false)),
    (String ((Ascii (false, true, false, false, true, true, true, false)),
    (String ((Ascii (true, false, false, true, true, true, true, false)),
    (String ((Ascii (false, false, false, false, true, true, true, false)),
    (String ((Ascii (false, false, true, false, true, true, true, false)),
    (String ((Ascii (true, false, true, false, false, true, true, false)),
    (String ((Ascii (false, false, true, false, false, true, true, false)),
    EmptyString)))))))))))))))))) ((sx_hdr p0.e_hdr) :: ((SS
    p0.e_blob) :: []))

(** val sx_raw : tlsRawRecord -> sx **)

let sx_raw p0 =
  c (String ((Ascii (false, true, false, false, true, false, true, false)),
    (String ((Ascii (true, false, false, false, false, true, true, false)),
    (String ((Ascii (true, true, true, false, true, true, true, false)),
    EmptyString)))))) ((sx_hdr p0.r_hdr) :: ((SS p0.r_data) :: []))

(** val sx_ext : tlsExtension -> sx **)

let sx_ext = function
| ESNI l ->
  c (String ((Ascii (true, true, false, false, true, false, true, false)),
    (String ((Ascii (false, true, true, true, false, false, true, false)),
    (String ((Ascii (true, false, false, true, false, false, true, false)),
    EmptyString))))))
    ((slist (fun p0 ->
       c EmptyString ((SN (fst p0)) :: ((SS (snd p0)) :: []))) l) :: [])
| EMaxFragmentLength v ->
  c (String ((Ascii (true, false, true, true, false, false, true, false)),
    (String ((Ascii (true, false, false, false, false, true, true, false)),
    (String ((Ascii (false, false, false, true, true, true, true, false)),
    (String ((Ascii (false, true, true, false, false, false, true, false)),
    (String ((Ascii (false, true, false, false, true, true, true, false)),
    (String ((Ascii (true, false, false, false, false, true, true, false)),
    (String ((Ascii (true, true, true, false, false, true, true, false)),
    (String ((Ascii (true, false, true, true, false, true, true, false)),
    (String ((Ascii (true, false, true, false, false, true, true, false)),
    (String ((Ascii (false, true, true, true, false, true, true, false)),
    (String ((Ascii (false, false, true, false, true, true, true, false)),
    (String ((Ascii (false, false, true, true, false, false, true, false)),
    (String ((Ascii (true, false, true, false, false, true, true, false)),
    (String ((Ascii (false, true, true, true, false, true, true, false)),
    (String ((Ascii (true, true, true, false, false, true, true, false)),
    (String ((Ascii (false, false, true, false, true, true, true, false)),
    (String ((Ascii (false, false, false, true, false, true, true, false)),
    EmptyString)))))))))))))))))))))))))))))))))) ((SN v) :: [])
| EStatusRequest v ->
  c (String ((Ascii (true, true, false, false, true, false, true, false)),
    (String ((Ascii (false, false, true, false, true, true, true, false)),
    (String ((Ascii (true, false, false, false, false, true, true, false)),
    (String ((Ascii (false, false, true, false, true, true, true, false)),
    (String ((Ascii (true, false, true, false, true, true, true, false)),
    (String ((Ascii (true, true, false, false, true, true, true, false)),
    (String ((Ascii (false, true, false, false, true, false, true, false)),
    (String ((Ascii (true, false, true, false, false, true, true, false)),
    (String ((Ascii (true, false, false, false, true, true, true, false)),
    (String ((Ascii (true, false, true, false, true, true, true, false)),
    (String ((Ascii (true, false, true, false, false, true, true, false)),
    (String ((Ascii (true, true, false, false, true, true, true, false)),
    (String ((Ascii (false, false, true, false, true, true, true, false)),
    EmptyString))))))))))))))))))))))))))
    ((sopt (fun p0 -> c EmptyString ((SN (fst p0)) :: ((SS (snd p0)) :: [])))
       v) :: [])
| EEllipticCurves l ->
  c (String ((Ascii (true, false, true, false, false, false, true, false)),
    (String ((Ascii (false, false, true, true, false, true, true, false)),
    (String ((Ascii (false, false, true, true, false, true, true, false)),
    (String ((Ascii (true, false, false, true, false, true, true, false)),
    (String ((Ascii (false, false, false, false, true, true, true, false)),
    (String ((Ascii (false, false, true, false, true, true, true, false)),
    (String ((Ascii (true, false, false, true, false, true, true, false)),
    (String ((Ascii (true, true, false, false, false, true, true, false)),
    (String ((Ascii (true, true, false, false, false, false, true, false)),
    (String ((Ascii (true, false, true, false, true, true, true, false)),
    (String ((Ascii (false, true, false, false, true, true, true, false)),
    (String ((Ascii (false, true, true, false, true, true, true, false)),
    (String ((Ascii (true, false, true, false, false, true, true, false)),
    (String ((Ascii (true, true, false, false, true, true, true, false)),
    EmptyString)))))))))))))))))))))))))))) ((slist (fun x -> SN x) l) :: [])
| EEcPointFormats s ->
  c (String ((Ascii (true, false, true, false, false, false, true, false)),
    (String ((Ascii (true, true, false, false, false, true, true, false)),
    (String ((Ascii (false, false, false, false, true, false, true, false)),
    (String ((Ascii (true, true, true, true, false, true, true, false)),
    (String ((Ascii (true, false, false, true, false, true, true, false)),
    (String ((Ascii (false, true, true, true, false, true, true, false)),
    (String ((Ascii (false, false, true, false, true, true, true, false)),
    (String ((Ascii (false, true, true, false, false, false, true, false)),
    (String ((Ascii (true, true, true, true, false, true, true, false)),
    (String ((Ascii (false, true, false, false, true, true, true, false)),
    (String ((Ascii (true, false, true, true, false, true, true, false)),
    (String ((Ascii (true, false, false, false, false, true, true, false)),
    (String ((Ascii (false, false, true, false, true, true, true, false)),
    (String ((Ascii (true, true, false, false, true, true, true, false)),
    EmptyString)))))))))))))))))))))))))))) ((SS s) :: [])
| ESignatureAlgorithms l ->
  c (String ((Ascii (true, true, false, false, true, false, true, false)),
    (String ((Ascii (true, false, false, true, false, true, true, false)),
    (String ((Ascii (true, true, true, false, false, true, true, false)),
    (String ((Ascii (false, true, true, true, false, true, true, false)),
    (String ((Ascii (true, false, false, false, false, true, true, false)),
    (String ((Ascii (false, false, true, false, true, true, true, false)),
    (String ((Ascii (true, false, true, false, true, true, true, false)),
    (String ((Ascii (false, true, false, false, true, true, true, false)),
    (String ((Ascii (true, false, true, false, false, true, true, false)),
    (String ((Ascii (true, false, false, false, false, false, true, false)),
    (String ((Ascii (false, false, true, true, false, true, true, false)),
    (String ((Ascii (true, true, true, false, false, true, true, false)),
    (String ((Ascii (true, true, true, true, false, true, true, false)),
    (String ((Ascii (false, true, false, false, true, true, true, false)),
    (String ((Ascii (true, false, false, true, false, true, true, false)),
    (String ((Ascii (false, false, true, false, true, true, true, false)),
    (String ((Ascii (false, false, false, true, false, true, true, false)),
    (String ((Ascii (true, false, true, true, false, true, true, false)),
    (String ((Ascii (true, true, false, false, true, true, true, false)),
    EmptyString))))))))))))))))))))))))))))))))))))))
    ((slist (fun x -> SN x) l) :: [])
| ERecordSizeLimit v ->
  c (String ((Ascii (false, true, false, false, true, false, true, false)),
    (String ((Ascii (true, false, true, false, false, true, true, false)),
    (String ((Ascii (true, true, false, false, false, true, true, false)),
    (String ((Ascii (true, true, true, true, false, true, true, false)),
    (String ((Ascii (false, true, false, false, true, true, true, false)),
    (String ((Ascii (false, false, true, false, false, true, true, false)),
    (String ((Ascii (true, true, false, false, true, false, true, false)),
    (String ((Ascii (true, false, false, true, false, true, true, false)),
    (String ((Ascii (false, true, false, true, true, true, true, false)),
    (String ((Ascii (true, false, true, false, false, true, true, false)),
    (String ((Ascii (false, false, true, true, false, false, true, false)),
    (String ((Ascii (true, false, false, true, false, true, true, false)),
    (String ((Ascii (true, false, true, true, false, true, true, false)),
    (String ((Ascii (true, false, false, true, false, true, true, false)),
    (String ((Ascii (false, false, true, false, true, true, true, false)),
    EmptyString)))))))))))))))))))))))))))))) ((SN v) :: [])
| ESessionTicket s ->
  c (String ((Ascii (true, true, false, false, true, false, true, false)),
    (String ((Ascii (true, false, true, false, false, true, true, false)),
    (String ((Ascii (true, true, false, false, true, true, true, false)),
    (String ((Ascii (true, true, false, false, true, true, true, false)),
    (String ((Ascii (true, false, false, true, false, true, true, false)),
    (String ((Ascii (true, true, true, true, false, true, true, false)),
    (String ((Ascii (false, true, true, true, false, true, true, false)),
    (String ((Ascii (false, false, true, false, true, false, true, false)),
    (String ((Ascii (true, false, false, true, false, true, true, false)),
    (String ((Ascii (true, true, false, false, false, true, true, false)),
    (String ((Ascii (true, true, false, true, false, true, true, false)),
    (String ((Ascii (true, false, true, false, false, true, true, false)),
    (String ((Ascii (false, false, true, false, true, true, true, false)),
    EmptyString)))))))))))))))))))))))))) ((SS s) :: [])
| EKeyShareOld s ->
  c (String ((Ascii (true, true, false, true, false, false, true, false)),
    (String ((Ascii (true, false, true, false, false, true, true, false)),
    (String ((Ascii (true, false, false, true, true, true, true, false)),
    (String ((Ascii (true, true, false, false, true, false, true, false)),
    (String ((Ascii (false, false, false, true, false, true, true, false)),
    (String ((Ascii (true, false, false, false, false, true, true, false)),
    (String ((Ascii (false, true, false, false, true, true, true, false)),
    (String ((Ascii (true, false, true, false, false, true, true, false)),
    (String ((Ascii (true, true, true, true, false, false, true, false)),
    (String ((Ascii (false, false, true, true, false, true, true, false)),
    (String ((Ascii (false, false, true, false, false, true, true, false)),
    EmptyString)))))))))))))))))))))) ((SS s) :: [])
| EKeyShare s ->
  c (String ((Ascii (true, true, false, true, false, false, true, false)),
    (String ((Ascii (true, false, true, false, false, true, true, false)),
    (String ((Ascii (true, false, false, true, true, true, true, false)),
    (String ((Ascii (true, true, false, false, true, false, true, false)),
    (String ((Ascii (false, false, false, true, false, true, true, false)),
    (String ((Ascii (true, false, false, false, false, true, true, false)),
    (String ((Ascii (false, true, false, false, true, true, true, false)),
    (String ((Ascii (true, false, true, false, false, true, true, false)),
    EmptyString)))))))))))))))) ((SS s) :: [])
| EPreSharedKey s ->
  c (String ((Ascii (false, false, false, false, true, false, true, false)),
    (String ((Ascii (false, true, false, false, true, true, true, false)),
    (String ((Ascii (true, false, true, false, false, true, true, false)),
    (String ((Ascii (true, true, false, false, true, false, true, false)),
    (String ((Ascii (false, false, false, true, false, true, true, false)),
    (String ((Ascii (true, false, false, false, false, true, true, false)),
    (String ((Ascii (false, true, false, false, true, true, true, false)),
    (String ((Ascii (true, false, true, false, false, true, true, false)),
    (String ((Ascii (false, false, true, false, false, true, true, false)),
    (String ((Ascii (true, true, false, true, false, false, true, false)),
    (String ((Ascii (true, false, true, false, false, true, true, false)),
    (String ((Ascii (true, false, false, true, true, true, true, false)),
    EmptyString)))))))))))))))))))))))) ((SS s) :: [])
| EEarlyData v ->
  c (String ((Ascii (true, false, true, false, false, false, true, false)),
    (String ((Ascii (true, false, false, false, false, true, true, false)),
    (String ((Ascii (false, true, false, false, true, true, true, false)),
    (String ((Ascii (false, false, true, true, false, true, true, false)),
    (String ((Ascii (true, false, false, true, true, true, true, false)),
    (String ((Ascii (false, false, true, false, false, false, true, false)),
    (String ((Ascii (true, false, false, false, false, true, true, false)),
    (String ((Ascii (false, false, true, false, true, true, true, false)),
    (String ((Ascii (true, false, false, false, false, true, true, false)),
    EmptyString)))))))))))))))))) ((sopt (fun x -> SN x) v) :: [])
| ESupportedVersions l ->
  c (String ((Ascii (true, true, false, false, true, false, true, false)),
    (String ((Ascii (true, false, true, false, true, true, true, false)),
    (String ((Ascii (false, false, false, false, true, true, true, false)),
    (String ((Ascii (false, false, false, false, true, true, true, false)),
    (String ((Ascii (true, true, true, true, false, true, true, false)),
    (String ((Ascii (false, true, false, false, true, true, true, false)),
    (String ((Ascii (false, false, true, false, true, true, true, false)),
    (String ((Ascii (true, false, true, false, false, true, true, false)),
    (String ((Ascii (false, false, true, false, false, true, true, false)),
    (String ((Ascii (false, true, true, false, true, false, true, false)),
    (String ((Ascii (true, false, true, false, false, true, true, false)),
    (String ((Ascii (false, true, false, false, true, true, true, false)),
    (String ((Ascii (true, true, false, false, true, true, true, false)),
    (String ((Ascii (true, false, false, true, false, true, true, false)),
    (String ((Ascii (true, true, true, true, false, true, true, false)),
    (String ((Ascii (false, true, true, true, false, true, true, false)),
    (String ((Ascii (true, true, false, false, true, true, true, false)),
    EmptyString))))))))))))))))))))))))))))))))))
    ((slist (fun x -> SN x) l) :: [])
| ECookie s ->
  c (String ((Ascii (true, true, false, false, false, false, true, false)),
    (String ((Ascii (true, true, true, true, false, true, true, false)),
    (String ((Ascii (true, true, true, true, false, true, true, false)),
    (String ((Ascii (true, true, false, true, false, true, true, false)),
    (String ((Ascii (true, false, false, true, false, true, true, false)),
    (String ((Ascii (true, false, true, false, false, true, true, false)),
    EmptyString)))))))))))) ((SS s) :: [])
| EPskExchangeModes l ->
  c (String ((Ascii (false, false, false, false, true, false, true, false)),
    (String ((Ascii (true, true, false, false, true, true, true, false)),
    (String ((Ascii (true, true, false, true, false, true, true, false)),
    (String ((Ascii (true, false, true, false, false, false, true, false)),
    (String ((Ascii (false, false, false, true, true, true, true, false)),
    (String ((Ascii (true, true, false, false, false, true, true, false)),
    (String ((Ascii (false, false, false, true, false, true, true, false)),
    (String ((Ascii (true, false, false, false, false, true, true, false)),
    (String ((Ascii (false, true, true, true, false, true, true, false)),
    (String ((Ascii (true, true, true, false, false, true, true, false)),
    (String ((Ascii (true, false, true, false, false, true, true, false)),
    (String ((Ascii (true, false, true, true, false, false, true, false)),
    (String ((Ascii (true, true, true, true, false, true, true, false)),
    (String ((Ascii (false, false, true, false, false, true, true, false)),
    (String ((Ascii (true, false, true, false, false, true, true, false)),
    (String ((Ascii (true, true, false, false, true, true, true, false)),
    EmptyString)))))))))))))))))))))))))))))))) ((SB l) :: [])
| EHeartbeat v ->
  c (String ((Ascii (false, false, false, true, false, false, true, false)),
    (String ((Ascii (true, false, true, false, false, true, true, false)),
    (String ((Ascii (true, false, false, false, false, true, true, false)),
    (String ((Ascii (false, true, false, false, true, true, true, false)),
    (String ((Ascii (false, false, true, false, true, true, true, false)),
    (String ((Ascii (false, true, false, false, false, true, true, false)),
    (String ((Ascii (true, false, true, false, false, true, true, false)),
    (String ((Ascii (true, false, false, false, false, true, true, false)),
    (String ((Ascii (false, false, true, false, true, true, true, false)),
    EmptyString)))))))))))))))))) ((SN v) :: [])
| EALPN l ->
  c (String ((Ascii (true, false, false, false, false, false, true, false)),
    (String ((Ascii (false, false, true, true, false, false, true, false)),
    (String ((Ascii (false, false, false, false, true, false, true, false)),
    (String ((Ascii (false, true, true, true, false, false, true, false)),
    EmptyString)))))))) ((slist (fun x -> SS x) l) :: [])
| ESignedCertificateTimestamp v ->
  c (String ((Ascii (true, true, false, false, true, false, true, false)),
    (String ((Ascii (true, false, false, true, false, true, true, false)),
    (String ((Ascii (true, true, true, false, false, true, true, false)),
    (String ((Ascii (false, true, true, true, false, true, true, false)),
    (String ((Ascii (true, false, true, false, false, true, true, false)),
    (String ((Ascii (false, false, true, false, false, true, true, false)),
    (String ((Ascii (true, true, false, false, false, false, true, false)),
    (String ((Ascii (true, false, true, false, false, true, true, false)),
    (String ((Ascii (false, true, false, false, true, true, true, false)),
    (String ((Ascii (false, false, true, false, true, true, true, false)),
    (String ((Ascii (true, false, false, true, false, true, true, false)),
    (String ((Ascii (false, true, true, false, false, true, true, false)),
    (String ((Ascii (true, false, false, true, false, true, true, false)),
    (String ((Ascii (true, true, false, false, false, true, true, false)),
    (String ((Ascii (true, false, false, false, false, true, true, false)),
    (String ((Ascii (false, false, true, false, true, true, true, false)),
    (String ((Ascii (true, false, true, false, false, true, true, false)),
    (String ((Ascii (false, false, true, false, true, false, true, false)),
    (String ((Ascii (true, false, false, true, false, true, true, false)),
    (String ((Ascii (true, false, true, true, false, true, true, false)),
    (String ((Ascii (true, false, true, false, false, true, true, false)),
    (String ((Ascii (true, true, false, false, true, true, true, false)),
    (String ((Ascii (false, false, true, false, true, true, true, false)),
    (String ((Ascii (true, false, false, false, false, true, true, false)),
    (String ((Ascii (true, false, true, true, false, true, true, false)),
    (String ((Ascii (false, false, false, false, true, true, true, false)),
    EmptyString))))))))))))))))))))))))))))))))))))))))))))))))))))
    ((sopt (fun x -> SS x) v) :: [])
| EPadding s ->
  c (String ((Ascii (false, false, false, false, true, false, true, false)),
    (String ((Ascii (true, false, false, false, false, true, true, false)),
    (String ((Ascii (false, false, true, false, false, true, true, false)),
    (String ((Ascii (false, false, true, false, false, true, true, false)),
    (String ((Ascii (true, false, false, true, false, true, true, false)),
    (String ((Ascii (false, true, true, true, false, true, true, false)),
    (String ((Ascii (true, true, true, false, false, true, true, false)),
    EmptyString)))))))))))))) ((SS s) :: [])
| EEncryptThenMac ->
  c (String ((Ascii (true, false, true, false, false, false, true, false)),
    (String ((Ascii (false, true, true, true, false, true, true, false)),
    (String ((Ascii (true, true, false, false, false, true, true, false)),
    (String ((Ascii (false, true, false, false, true, true, true, false)),
    (String ((Ascii (true, false, false, true, true, true, true, false)),
    (String ((Ascii (false, false, false, false, true, true, true, false)),
    (String ((Ascii (false, false, true, false, true, true, true, false)),
    (String ((Ascii (false, false, true, false, true, false, true, false)),
    (String ((Ascii (false, false, false, true, false, true, true, false)),
    (String ((Ascii (true, false, true, false, false, true, true, false)),
    (String ((Ascii (false, true, true, true, false, true, true, false)),
    (String ((Ascii (true, false, true, true, false, false, true, false)),
    (String ((Ascii (true, false, false, false, false, true, true, false)),
    (String ((Ascii (true, true, false, false, false, true, true, false)),
    EmptyString)))))))))))))))))))))))))))) []
| EExtendedMasterSecret ->
  c (String ((Ascii (true, false, true, false, false, false, true, false)),
    (String ((Ascii (false, false, false, true, true, true, true, false)),
    (String ((Ascii (false, false, true, false, true, true, true, false)),
    (String ((Ascii (true, false, true, false, false, true, true, false)),
    (String ((Ascii (false, true, true, true, false, true, true, false)),
    (String ((Ascii (false, false, true, false, false, true, true, false)),
    (String ((Ascii (true, false, true, false, false, true, true, false)),
    (String ((Ascii (false, false, true, false, false, true, true, false)),
    (String ((Ascii (true, false, true, true, false, false, true, false)),
    (String ((Ascii (true, false, false, false, false, true, true, false)),
    (String ((Ascii (true, true, false, false, true, true, true, false)),
    (String ((Ascii (false, false, true, false, true, true, true, false)),
    (String ((Ascii (true, false, true, false, false, true, true, false)),
    (String ((Ascii (false, true, false, false, true, true, true, false)),
    (String ((Ascii (true, true, false, false, true, false, true, false)),
    (String ((Ascii (true, false, true, false, false, true, true, false)),
    (String ((Ascii (true, true, false, false, false, true, true, false)),
    (String ((Ascii (false, true, false, false, true, true, true, false)),
    (String ((Ascii (true, false, true, false, false, true, true, false)),
    (String ((Ascii (false, false, true, false, true, true, true, false)),
    EmptyString)))))))))))))))))))))))))))))))))))))))) []
| EOidFilters l ->
  c (String ((Ascii (true, true, true, true, false, false, true, false)),
    (String ((Ascii (true, false, false, true, false, true, true, false)),
    (String ((Ascii (false, false, true, false, false, true, true, false)),
    (String ((Ascii (false, true, true, false, false, false, true, false)),
    (String ((Ascii (true, false, false, true, false, true, true, false)),
    (String ((Ascii (false, false, true, true, false, true, true, false)),
    (String ((Ascii (false, false, true, false, true, true, true, false)),
    (String ((Ascii (true, false, true, false, false, true, true, false)),
    (String ((Ascii (false, true, false, false, true, true, true, false)),
    (String ((Ascii (true, true, false, false, true, true, true, false)),
    EmptyString))))))))))))))))))))
    ((slist (fun p0 ->
       c EmptyString ((SS (fst p0)) :: ((SS (snd p0)) :: []))) l) :: [])
| EPostHandshakeAuth ->
  c (String ((Ascii (false, false, false, false, true, false, true, false)),
    (String ((Ascii (true, true, true, true, false, true, true, false)),
    (String ((Ascii (true, true, false, false, true, true, true, false)),
    (String ((Ascii (false, false, true, false, true, true, true, false)),
    (String ((Ascii (false, false, false, true, false, false, true, false)),
    (String ((Ascii (true, false, false, false, false, true, true, false)),
    (String ((Ascii (false, true, true, true, false, true, true, false)),
    (String ((Ascii (false, false, true, false, false, true, true, false)),
    (String ((Ascii (true, true, false, false, true, true, true, false)),
    (String ((Ascii (false, false, false, true, false, true, true, false)),
    (String ((Ascii (true, false, false, false, false, true, true, false)),
    (String ((Ascii (true, true, false, true, false, true, true, false)),
    (String ((Ascii (true, false, true, false, false, true, true, false)),
    (String ((Ascii (true, false, false, false, false, false, true, false)),
    (String ((Ascii (true, false, true, false, true, true, true, false)),
    (String ((Ascii (false, false, true, false, true, true, true, false)),
    (String ((Ascii (false, false, false, true, false, true, true, false)),
    EmptyString)))))))))))))))))))))))))))))))))) []
| ENextProtocolNegotiation ->
  c (String ((Ascii (false, true, true, true, false, false, true, false)),
    (String ((Ascii (true, false, true, false, false, true, true, false)),
    (String ((Ascii (false, false, false, true, true, true, true, false)),
    (String ((Ascii (false, false, true, false, true, true, true, false)),
    (String ((Ascii (false, false, false, false, true, false, true, false)),
    (String ((Ascii (false, true, false, false, true, true, true, false)),
    (String ((Ascii (true, true, true, true, false, true, true, false)),
    (String ((Ascii (false, false, true, false, true, true, true, false)),
    (String ((Ascii (true, true, true, true, false, true, true, false)),
    (String ((Ascii (true, true, false, false, false, true, true, false)),
    (String ((Ascii (true, true, true, true, false, true, true, false)),
    (String ((Ascii (false, false, true, true, false, true, true, false)),
    (String ((Ascii (false, true, true, true, false, false, true, false)),
    (String ((Ascii (true, false, true, false, false, true, true, false)),
    (String ((Ascii (true, true, true, false, false, true, true, false)),
    (String ((Ascii (true, true, true, true, false, true, true, false)),
    (String ((Ascii (false, false, true, false, true, true, true, false)),
    (String ((Ascii (true, false, false, true, false, true, true, false)),
    (String ((Ascii (true, false, false, false, false, true, true, false)),
    (String ((Ascii (false, false, true, false, true, true, true, false)),
    (String ((Ascii (true, false, false, true, false, true, true, false)),
    (String ((Ascii (true, true, true, true, false, true, true, false)),
    (String ((Ascii (false, true, true, true, false, true, true, false)),
    EmptyString)))))))))))))))))))))))))))))))))))))))))))))) []
| ERenegotiationInfo s ->
  c (String ((Ascii (false, true, false, false, true, false, true, false)),
    (String ((Ascii (true, false, true, false, false, true, true, false)),
    (String ((Ascii (false, true, true, true, false, true, true, false)),
    (String ((Ascii (true, false, true, false, false, true, true, false)),
    (String ((Ascii (true, true, true, false, false, true, true, false)),
    (String ((Ascii (true, true, true, true, false, true, true, false)),
    (String ((Ascii (false, false, true, false, true, true, true, false)),
    (String ((Ascii (true, false, false, true, false, true, true, false)),
    (String ((Ascii (true, false, false, false, false, true, true, false)),
    (String ((Ascii (false, false, true, false, true, true, true, false)),
    (String ((Ascii (true, false, false, true, false, true, true, false)),
    (String ((Ascii (true, true, true, true, false, true, true, false)),
    (String ((Ascii (false, true, true, true, false, true, true, false)),
    (String ((Ascii (true, false, false, true, false, false, true, false)),
    (String ((Ascii (false, true, true, true, false, true, true, false)),
    (String ((Ascii (false, true, true, false, false, true, true, false)),
    (String ((Ascii (true, true, true, true, false, true, true, false)),
    EmptyString)))))))))))))))))))))))))))))))))) ((SS s) :: [])
| EEncryptedServerName (c0, g0, k, r, e2) ->
  c (String ((Ascii (true, false, true, false, false, false, true, false)),
    (String ((Ascii (false, true, true, true, false, true, true, false)),
    (String ((Ascii (true, true, false, false, false, true, true, false)),
    (String ((Ascii (false, true, false, false, true, true, true, false)),
    (String ((Ascii (true, false, false, true, true, true, true, false)),
    (String ((Ascii (false, false, false, false, true, true, true, false)),
    (String ((Ascii (false, false, true, false, true, true, true, false)),
    (String ((Ascii (true, false, true, false, false, true, true, false)),
    (String ((Ascii (false, false, true, false, false, true, true, false)),
    (String ((Ascii (true, true, false, false, true, false, true, false)),
    (String ((Ascii (true, false, true, false, false, true, true, false)),
    (String ((Ascii (false, true, false, false, true, true, true, false)),
    (String ((Ascii (false, true, true, false, true, true, true, false)),
    (String ((Ascii (true, false, true, false, false, true, true, false)),
    (String ((Ascii (false, true, false, false, true, true, true, false)),
    (String ((Ascii (false, true, true, true, false, false, true, false)),
    (String ((Ascii (true, false, false, false, false, true, true, false)),
    (String ((Ascii (true, false, true, true, false, true, true, false)),
    (String ((Ascii (true, false, true, false, false, true, true, false)),
    EmptyString)))))))))))))))))))))))))))))))))))))) ((SN c0) :: ((SN
    g0) :: ((SS k) :: ((SS r) :: ((SS e2) :: [])))))
| EGrease (t, s) ->
  c (String ((Ascii (true, true, true, false, false, false, true, false)),
    (String ((Ascii (false, true, false, false, true, true, true, false)),
    (String ((Ascii (true, false, true, false, false, true, true, false)),
    (String ((Ascii (true, false, false, false, false, true, true, false)),
    (String ((Ascii (true, true, false, false, true, true, true, false)),
    (String ((Ascii (true, false, true, false, false, true, true, false)),
    EmptyString)))))))))))) ((SN t) :: ((SS s) :: []))
| EUnknown (t, s) ->
  c (String ((Ascii (true, false, true, false, true, false, true, false)),
    (String ((Ascii (false, true, true, true, false, true, true, false)),
    (String ((Ascii (true, true, false, true, false, true, true, false)),
    (String ((Ascii (false, true, true, true, false, true, true, false)),
    (String ((Ascii (true, true, true, true, false, true, true, false)),
    (String ((Ascii (true, true, true, false, true, true, true, false)),
    (String ((Ascii (false, true, true, true, false, true, true, false)),
    EmptyString)))))))))))))) ((SN t) :: ((SS s) :: []))

(** val sx_dh : serverDHParams -> sx **)

let sx_dh d =
  c (String ((Ascii (false, false, true, false, false, false, true, false)),
    (String ((Ascii (false, false, false, true, false, false, true, false)),
    EmptyString)))) ((SS d.dh_p) :: ((SS d.dh_g) :: ((SS d.dh_ys) :: [])))

(** val sx_ecc : eCParametersContent -> sx **)

let sx_ecc = function
| EcExplicitPrime c1 ->
  c (String ((Ascii (true, false, true, false, false, false, true, false)),
    (String ((Ascii (false, false, false, true, true, true, true, false)),
    (String ((Ascii (false, false, false, false, true, true, true, false)),
    (String ((Ascii (false, false, true, true, false, true, true, false)),
    (String ((Ascii (true, false, false, true, false, true, true, false)),
    (String ((Ascii (true, true, false, false, false, true, true, false)),
    (String ((Ascii (true, false, false, true, false, true, true, false)),
    (String ((Ascii (false, false, true, false, true, true, true, false)),
    (String ((Ascii (false, false, false, false, true, false, true, false)),
    (String ((Ascii (false, true, false, false, true, true, true, false)),
    (String ((Ascii (true, false, false, true, false, true, true, false)),
    (String ((Ascii (true, false, true, true, false, true, true, false)),
    (String ((Ascii (true, false, true, false, false, true, true, false)),
    EmptyString)))))))))))))))))))))))))) ((SS c1.ep_prime_p) :: ((SS
    c1.ep_a) :: ((SS c1.ep_b) :: ((SS c1.ep_base) :: ((SS
    c1.ep_order) :: ((SS c1.ep_cofactor) :: []))))))
| EcNamedGroup g0 ->
  c (String ((Ascii (false, true, true, true, false, false, true, false)),
    (String ((Ascii (true, false, false, false, false, true, true, false)),
    (String ((Ascii (true, false, true, true, false, true, true, false)),
    (String ((Ascii (true, false, true, false, false, true, true, false)),
    (String ((Ascii (false, false, true, false, false, true, true, false)),
    (String ((Ascii (true, true, true, false, false, false, true, false)),
    (String ((Ascii (false, true, false, false, true, true, true, false)),
    (String ((Ascii (true, true, true, true, false, true, true, false)),
    (String ((Ascii (true, false, true, false, true, true, true, false)),
    (String ((Ascii (false, false, false, false, true, true, true, false)),
    EmptyString)))))))))))))))))))) ((SN g0) :: [])

(** val sx_ecp : eCParameters -> sx **)

let sx_ecp p0 =
  c (String ((Ascii (true, false, true, false, false, false, true, false)),
    (String ((Ascii (true, true, false, false, false, false, true, false)),
    (String ((Ascii (false, false, false, false, true, false, true, false)),
    (String ((Ascii (true, false, false, false, false, true, true, false)),
    (String ((Ascii (false, true, false, false, true, true, true, false)),
    (String ((Ascii (true, false, false, false, false, true, true, false)),
    (String ((Ascii (true, false, true, true, false, true, true, false)),
    (String ((Ascii (true, false, true, false, false, true, true, false)),
    (String ((Ascii (false, false, true, false, true, true, true, false)),
    (String ((Ascii (true, false, true, false, false, true, true, false)),
    (String ((Ascii (false, true, false, false, true, true, true, false)),
    (String ((Ascii (true, true, false, false, true, true, true, false)),
    EmptyString)))))))))))))))))))))))) ((SN
    p0.ec_curve_type) :: ((sx_ecc p0.ec_content) :: []))

(** val sx_ecdh : serverECDHParams -> sx **)

let sx_ecdh p0 =
  c (String ((Ascii (true, false, true, false, false, false, true, false)),
    (String ((Ascii (true, true, false, false, false, false, true, false)),
    (String ((Ascii (false, false, true, false, false, false, true, false)),
    (String ((Ascii (false, false, false, true, false, false, true, false)),
    EmptyString)))))))) ((sx_ecp p0.ecdh_params) :: ((SS
    p0.ecdh_public) :: []))

(** val sx_ds : digitallySigned -> sx **)

let sx_ds d =
  c (String ((Ascii (true, true, false, false, true, false, true, false)),
    (String ((Ascii (true, false, false, true, false, true, true, false)),
    (String ((Ascii (true, true, true, false, false, true, true, false)),
    (String ((Ascii (false, true, true, true, false, true, true, false)),
    (String ((Ascii (true, false, true, false, false, true, true, false)),
    (String ((Ascii (false, false, true, false, false, true, true, false)),
    EmptyString))))))))))))
    ((sopt (fun p0 -> c EmptyString ((SN (fst p0)) :: ((SN (snd p0)) :: [])))
       d.ds_alg) :: ((SS d.ds_data) :: []))

(** val sx_sct : sCT -> sx **)

let sx_sct s =
  c (String ((Ascii (true, true, false, false, true, false, true, false)),
    (String ((Ascii (true, true, false, false, false, false, true, false)),
    (String ((Ascii (false, false, true, false, true, false, true, false)),
    EmptyString)))))) ((SN s.sct_version) :: ((SS s.sct_id) :: ((SN
    s.sct_timestamp) :: ((SS s.sct_ext) :: ((sx_ds s.sct_sig) :: [])))))

(** val sx_dhdr : dTLSRecordHeader -> sx **)

let sx_dhdr h =
  c (String ((Ascii (false, false, true, false, false, false, true, false)),
    (String ((Ascii (false, false, false, true, false, false, true, false)),
    (String ((Ascii (false, false, true, false, false, true, true, false)),
    (String ((Ascii (false, true, false, false, true, true, true, false)),
    EmptyString)))))))) ((SN h.d_type) :: ((SN h.d_version) :: ((SN
    h.d_epoch) :: ((SN h.d_seq) :: ((SN h.d_len) :: [])))))

(** val sx_dbody : dTLSBody -> sx **)

let sx_dbody = function
| DHelloRequest ->
  c (String ((Ascii (false, false, false, true, false, false, true, false)),
    (String ((Ascii (true, false, true, false, false, true, true, false)),
    (String ((Ascii (false, false, true, true, false, true, true, false)),
    (String ((Ascii (false, false, true, true, false, true, true, false)),
    (String ((Ascii (true, true, true, true, false, true, true, false)),
    (String ((Ascii (false, true, false, false, true, false, true, false)),
    (String ((Ascii (true, false, true, false, false, true, true, false)),
    (String ((Ascii (true, false, false, false, true, true, true, false)),
    (String ((Ascii (true, false, true, false, true, true, true, false)),
    (String ((Ascii (true, false, true, false, false, true, true, false)),
    (String ((Ascii (true, true, false, false, true, true, true, false)),
    (String ((Ascii (false, false, true, false, true, true, true, false)),
    EmptyString)))))))))))))))))))))))) []
| DClientHello c0 ->
  c (String ((Ascii (true, true, false, false, false, false, true, false)),
    (String ((Ascii (false, false, true, true, false, true, true, false)),
    (String ((Ascii (true, false, false, true, false, true, true, false)),
    (String ((Ascii (true, false, true, false, false, true, true, false)),
    (String ((Ascii (false, true, true, true, false, true, true, false)),
    (String ((Ascii (false, false, true, false, true, true, true, false)),
    (String ((Ascii (false, false, false, true, false, false, true, false)),
    (String ((Ascii (true, false, true, false, false, true, true, false)),
    (String ((Ascii (false, false, true, true, false, true, true, false)),
    (String ((Ascii (false, false, true, true, false, true, true, false)),
    (String ((Ascii (true, true, true, true, false, true, true, false)),
    EmptyString)))))))))))))))))))))) ((SN c0.dch_version) :: ((SS
    c0.dch_random) :: ((sopt (fun x -> SS x) c0.dch_sid) :: ((SS
    c0.dch_cookie) :: ((slist (fun x -> SN x) c0.dch_ciphers) :: ((slist
                                                                    (fun x ->
                                                                    SN x)
                                                                    c0.dch_comp) :: (
    (sopt (fun x -> SS x) c0.dch_ext) :: [])))))))
| DHelloVerifyRequest (v, c0) ->
  c (String ((Ascii (false, false, false, true, false, false, true, false)),
    (String ((Ascii (true, false, true, false, false, true, true, false)),
    (String ((Ascii (false, false, true, true, false, true, true, false)),
    (String ((Ascii (false, false, true, true, false, true, true, false)),
    (String ((Ascii (true, true, true, true, false, true, true, false)),
    (String ((Ascii (false, true, true, false, true, false, true, false)),
    (String ((Ascii (true, false, true, false, false, true, true, false)),
    (String ((Ascii (false, true, false, false, true, true, true, false)),
    (String ((Ascii (true, false, false, true, false, true, true, false)),
    (String ((Ascii (false, true, true, false, false, true, true, false)),
    (String ((Ascii (true, false, false, true, true, true, true, false)),
    (String ((Ascii (false, true, false, false, true, false, true, false)),
    (String ((Ascii (true, false, true, false, false, true, true, false)),
    (String ((Ascii (true, false, false, false, true, true, true, false)),
    (String ((Ascii (true, false, true, false, true, true, true, false)),
    (String ((Ascii (true, false, true, false, false, true, true, false)),
    (String ((Ascii (true, true, false, false, true, true, true, false)),
    (String ((Ascii (false, false, true, false, true, true, true, false)),
    EmptyString)))))))))))))))))))))))))))))))))))) ((SN v) :: ((SS
    c0) :: []))
| DServerHello c0 -> sx_sh c0
| DNewSessionTicket (h, t) ->
  c (String ((Ascii (false, true, true, true, false, false, true, false)),
    (String ((Ascii (true, false, true, false, false, true, true, false)),
    (String ((Ascii (true, true, true, false, true, true, true, false)),
    (String ((Ascii (true, true, false, false, true, false, true, false)),
    (String ((Ascii (true, false, true, false, false, true, true, false)),
    (String ((Ascii (true, true, false, false, true, true, true, false)),
    (String ((Ascii (true, true, false, false, true, true, true, false)),
    (String ((Ascii (true, false, false, true, false, true, true, false)),
    (String ((Ascii (true, true, true, true, false, true, true, false)),
    (String ((Ascii (false, true, true, true, false, true, true, false)),
    (String ((Ascii (false, false, true, false, true, false, true, false)),
    (String ((Ascii (true, false, false, true, false, true, true, false)),
    (String ((Ascii (true, true, false, false, false, true, true, false)),
    (String ((Ascii (true, true, false, true, false, true, true, false)),
    (String ((Ascii (true, false, true, false, false, true, true, false)),
    (String ((Ascii (false, false, true, false, true, true, true, false)),
    EmptyString)))))))))))))))))))))))))))))))) ((SN h) :: ((SS t) :: []))
| DHelloRetryRequest c0 -> sx_hrr c0
| DCertificate l ->
  c (String ((Ascii (true, true, false, false, false, false, true, false)),
    (String ((Ascii (true, false, true, false, false, true, true, false)),
    (String ((Ascii (false, true, false, false, true, true, true, false)),
    (String ((Ascii (false, false, true, false, true, true, true, false)),
    (String ((Ascii (true, false, false, true, false, true, true, false)),
    (String ((Ascii (false, true, true, false, false, true, true, false)),
    (String ((Ascii (true, false, false, true, false, true, true, false)),
    (String ((Ascii (true, true, false, false, false, true, true, false)),
    (String ((Ascii (true, false, false, false, false, true, true, false)),
    (String ((Ascii (false, false, true, false, true, true, true, false)),
    (String ((Ascii (true, false, true, false, false, true, true, false)),
    EmptyString)))))))))))))))))))))) ((slist (fun x -> SS x) l) :: [])
| DServerKeyExchange s ->
  c (String ((Ascii (true, true, false, false, true, false, true, false)),
    (String ((Ascii (true, false, true, false, false, true, true, false)),
    (String ((Ascii (false, true, false, false, true, true, true, false)),
    (String ((Ascii (false, true, true, false, true, true, true, false)),
    (String ((Ascii (true, false, true, false, false, true, true, false)),
    (String ((Ascii (false, true, false, false, true, true, true, false)),
    (String ((Ascii (true, true, false, true, false, false, true, false)),
    (String ((Ascii (true, false, true, false, false, true, true, false)),
    (String ((Ascii (true, false, false, true, true, true, true, false)),
    (String ((Ascii (true, false, true, false, false, false, true, false)),
    (String ((Ascii (false, false, false, true, true, true, true, false)),
    (String ((Ascii (true, true, false, false, false, true, true, false)),
    (String ((Ascii (false, false, false, true, false, true, true, false)),
    (String ((Ascii (true, false, false, false, false, true, true, false)),
    (String ((Ascii (false, true, true, true, false, true, true, false)),
    (String ((Ascii (true, true, true, false, false, true, true, false)),
    (String ((Ascii (true, false, true, false, false, true, true, false)),
    EmptyString)))))))))))))))))))))))))))))))))) ((SS s) :: [])
| DCertificateRequest c0 -> sx_cr c0
| DServerDone s ->
  c (String ((Ascii (true, true, false, false, true, false, true, false)),
    (String ((Ascii (true, false, true, false, false, true, true, false)),
    (String ((Ascii (false, true, false, false, true, true, true, false)),
    (String ((Ascii (false, true, true, false, true, true, true, false)),
    (String ((Ascii (true, false, true, false, false, true, true, false)),
    (String ((Ascii (false, true, false, false, true, true, true, false)),
    (String ((Ascii (false, false, true, false, false, false, true, false)),
    (String ((Ascii (true, true, true, true, false, true, true, false)),
    (String ((Ascii (false, true, true, true, false, true, true, false)),
    (String ((Ascii (true, false, true, false, false, true, true, false)),
    EmptyString)))))))))))))))))))) ((SS s) :: [])
| DCertificateVerify s ->
  c (String ((Ascii (true, true, false, false, false, false, true, false)),
    (String ((Ascii (true, false, true, false, false, true, true, false)),
    (String ((Ascii (false, true, false, false, true, true, true, false)),
    (String ((Ascii (false, false, true, false, true, true, true, false)),
    (String ((Ascii (true, false, false, true, false, true, true, false)),
    (String ((Ascii (false, true, true, false, false, true, true, false)),
    (String ((Ascii (true, false, false, true, false, true, true, false)),
    (String ((Ascii (true, true, false, false, false, true, true, false)),
    (String ((Ascii (true, false, false, false, false, true, true, false)),
    (String ((Ascii (false, false, true, false, true, true, true, false)),
    (String ((Ascii (true, false, true, false, false, true, true, false)),
    (String ((Ascii (false, true, true, false, true, false, true, false)),
    (String ((Ascii (true, false, true, false, false, true, true, false)),
    (String ((Ascii (false, true, false, false, true, true, true, false)),
    (String ((Ascii (true, false, false, true, false, true, true, false)),
    (String ((Ascii (false, true, true, false, false, true, true, false)),
    (String ((Ascii (true, false, false, true, true, true, true, false)),
    EmptyString)))))))))))))))))))))))))))))))))) ((SS s) :: [])
| DClientKeyExchange c0 ->
  c (String ((Ascii (true, true, false, false, false, false, true, false)),
    (String ((Ascii (false, false, true, true, false, true, true, false)),
    (String ((Ascii (true, false, false, true, false, true, true, false)),
    (String ((Ascii (true, false, true, false, false, true, true, false)),
    (String ((Ascii (false, true, true, true, false, true, true, false)),
    (String ((Ascii (false, false, true, false, true, true, true, false)),
    (String ((Ascii (true, true, false, true, false, false, true, false)),
    (String ((Ascii (true, false, true, false, false, true, true, false)),
    (String ((Ascii (true, false, false, true, true, true, true, false)),
    (String ((Ascii (true, false, true, false, false, false, true, false)),
    (String ((Ascii (false, false, false, true, true, true, true, false)),
    (String ((Ascii (true, true, false, false, false, true, true, false)),
    (String ((Ascii (false, false, false, true, false, true, true, false)),
    (String ((Ascii (true, false, false, false, false, true, true, false)),
    (String ((Ascii (false, true, true, true, false, true, true, false)),
    (String ((Ascii (true, true, true, false, false, true, true, false)),
    (String ((Ascii (true, false, true, false, false, true, true, false)),
    EmptyString)))))))))))))))))))))))))))))))))) ((sx_cke c0) :: [])
| DFinished s ->
  c (String ((Ascii (false, true, true, false, false, false, true, false)),
    (String ((Ascii (true, false, false, true, false, true, true, false)),
    (String ((Ascii (false, true, true, true, false, true, true, false)),
    (String ((Ascii (true, false, false, true, false, true, true, false)),
    (String ((Ascii (true, true, false, false, true, true, true, false)),
    (String ((Ascii (false, false, false, true, false, true, true, false)),
    (String ((Ascii (true, false, true, false, false, true, true, false)),
    (String ((Ascii (false, false, true, false, false, true, true, false)),
    EmptyString)))))))))))))))) ((SS s) :: [])
| DCertificateStatus (t, b0) ->
  c (String ((Ascii (true, true, false, false, false, false, true, false)),
    (String ((Ascii (true, false, true, false, false, true, true, false)),
    (String ((Ascii (false, true, false, false, true, true, true, false)),
    (String ((Ascii (false, false, true, false, true, true, true, false)),
    (String ((Ascii (true, false, false, true, false, true, true, false)),
    (String ((Ascii (false, true, true, false, false, true, true, false)),
    (String ((Ascii (true, false, false, true, false, true, true, false)),
    (String ((Ascii (true, true, false, false, false, true, true, false)),
    (String ((Ascii (true, false, false, false, false, true, true, false)),
    (String ((Ascii (false, false, true, false, true, true, true, false)),
    (String ((Ascii (true, false, true, false, false, true, true, false)),
    (String ((Ascii (true, true, false, false, true, false, true, false)),
    (String ((Ascii (false, false, true, false, true, true, true, false)),
    (String ((Ascii (true, false, false, false, false, true, true, false)),
    (String ((Ascii (false, false, true, false, true, true, true, false)),
    (String ((Ascii (true, false, true, false, true, true, true, false)),
    (String ((Ascii (true, true, false, false, true, true, true, false)),
    EmptyString)))))))))))))))))))))))))))))))))) ((SN t) :: ((SS b0) :: []))
| DNextProtocol (a, b0) ->
  c (String ((Ascii (false, true, true, true, false, false, true, false)),
    (String ((Ascii (true, false, true, false, false, true, true, false)),
    (String ((Ascii (false, false, false, true, true, true, true, false)),
    (String ((Ascii (false, false, true, false, true, true, true, false)),
    (String ((Ascii (false, false, false, false, true, false, true, false)),
    (String ((Ascii (false, true, false, false, true, true, true, false)),
    (String ((Ascii (true, true, true, true, false, true, true, false)),
    (String ((Ascii (false, false, true, false, true, true, true, false)),
    (String ((Ascii (true, true, true, true, false, true, true, false)),
    (String ((Ascii (true, true, false, false, false, true, true, false)),
    (String ((Ascii (true, true, true, true, false, true, true, false)),
    (String ((Ascii (false, false, true, true, false, true, true, false)),
    EmptyString)))))))))))))))))))))))) ((SS a) :: ((SS b0) :: []))
| DFragment s ->
  c (String ((Ascii (false, true, true, false, false, false, true, false)),
    (String ((Ascii (false, true, false, false, true, true, true, false)),
    (String ((Ascii (true, false, false, false, false, true, true, false)),
    (String ((Ascii (true, true, true, false, false, true, true, false)),
    (String ((Ascii (true, false, true, true, false, true, true, false)),
    (String ((Ascii (true, false, true, false, false, true, true, false)),
    (String ((Ascii (false, true, true, true, false, true, true, false)),
    (String ((Ascii (false, false, true, false, true, true, true, false)),
    EmptyString)))))))))))))))) ((SS s) :: [])

(** val sx_dmsg : dTLSMessage -> sx **)

let sx_dmsg = function
| DMHandshake h ->
  c (String ((Ascii (false, false, false, true, false, false, true, false)),
    (String ((Ascii (true, false, false, false, false, true, true, false)),
    (String ((Ascii (false, true, true, true, false, true, true, false)),
    (String ((Ascii (false, false, true, false, false, true, true, false)),
    (String ((Ascii (true, true, false, false, true, true, true, false)),
    (String ((Ascii (false, false, false, true, false, true, true, false)),
    (String ((Ascii (true, false, false, false, false, true, true, false)),
    (String ((Ascii (true, true, false, true, false, true, true, false)),
    (String ((Ascii (true, false, true, false, false, true, true, false)),
    EmptyString)))))))))))))))))) ((SN h.dhs_type) :: ((SN
    h.dhs_length) :: ((SN h.dhs_seq) :: ((SN h.dhs_frag_off) :: ((SN
    h.dhs_frag_len) :: ((sx_dbody h.dhs_body) :: []))))))
| DMChangeCipherSpec ->
  c (String ((Ascii (true, true, false, false, false, false, true, false)),
    (String ((Ascii (false, false, false, true, false, true, true, false)),
    (String ((Ascii (true, false, false, false, false, true, true, false)),
    (String ((Ascii (false, true, true, true, false, true, true, false)),
    (String ((Ascii (true, true, true, false, false, true, true, false)),
    (String ((Ascii (true, false, true, false, false, true, true, false)),
    (String ((Ascii (true, true, false, false, false, false, true, false)),
    (String ((Ascii (true, false, false, true, false, true, true, false)),
    (String ((Ascii (false, false, false, false, true, true, true, false)),
    (String ((Ascii (false, false, false, true, false, true, true, false)),
    (String ((Ascii (true, false, true, false, false, true, true, false)),
    (String ((Ascii (false, true, false, false, true, true, true, false)),
    (String ((Ascii (true, true, false, false, true, false, true, false)),
    (String ((Ascii (false, false, false, false, true, true, true, false)),
    (String ((Ascii (true, false, true, false, false, true, true, false)),
    (String ((Ascii (true, true, false, false, false, true, true, false)),
    EmptyString)))))))))))))))))))))))))))))))) []
| DMAlert (s, c0) ->
  c (String ((Ascii (true, false, false, false, false, false, true, false)),
    (String ((Ascii (false, false, true, true, false, true, true, false)),
    (String ((Ascii (true, false, true, false, false, true, true, false)),
    (String ((Ascii (false, true, false, false, true, true, true, false)),
    (String ((Ascii (false, false, true, false, true, true, true, false)),
    EmptyString)))))))))) ((SN s) :: ((SN c0) :: []))
| DMApplicationData b ->
  c (String ((Ascii (true, false, false, false, false, false, true, false)),
    (String ((Ascii (false, false, false, false, true, true, true, false)),
    (String ((Ascii (false, false, false, false, true, true, true, false)),
    (String ((Ascii (false, false, true, true, false, true, true, false)),
    (String ((Ascii (true, false, false, true, false, true, true, false)),
    (String ((Ascii (true, true, false, false, false, true, true, false)),
    (String ((Ascii (true, false, false, false, false, true, true, false)),
    (String ((Ascii (false, false, true, false, true, true, true, false)),
    (String ((Ascii (true, false, false, true, false, true, true, false)),
    (String ((Ascii (true, true, true, true, false, true, true, false)),
    (String ((Ascii (false, true, true, true, false, true, true, false)),
    (String ((Ascii (false, false, true, false, false, false, true, false)),
    (String ((Ascii (true, false, false, false, false, true, true, false)),
    (String ((Ascii (false, false, true, false, true, true, true, false)),
    (String ((Ascii (true, false, false, false, false, true, true, false)),
    EmptyString)))))))))))))))))))))))))))))) ((SS b) :: [])
| DMHeartbeat (t, l, p0) ->
  c (String ((Ascii (false, false, false, true, false, false, true, false)),
    (String ((Ascii (true, false, true, false, false, true, true, false)),
    (String ((Ascii (true, false, false, false, false, true, true, false)),
    (String ((Ascii (false, true, false, false, true, true, true, false)),
    (String ((Ascii (false, false, true, false, true, true, true, false)),
    (String ((Ascii (false, true, false, false, false, true, true, false)),
    (String ((Ascii (true, false, true, false, false, true, true, false)),
    (String ((Ascii (true, false, false, false, false, true, true, false)),
    (String ((Ascii (false, false, true, false, true, true, true, false)),
    EmptyString)))))))))))))))))) ((SN t) :: ((SN l) :: ((SS p0) :: [])))

(** val sx_dplain : dTLSPlaintext -> sx **)

let sx_dplain p0 =
  c (String ((Ascii (false, false, true, false, false, false, true, false)),
    (String ((Ascii (false, false, false, false, true, false, true, false)),
    (String ((Ascii (false, false, true, true, false, true, true, false)),
    (String ((Ascii (true, false, false, false, false, true, true, false)),
    (String ((Ascii (true, false, false, true, false, true, true, false)),
    (String ((Ascii (false, true, true, true, false, true, true, false)),
    (String ((Ascii (false, false, true, false, true, true, true, false)),
    (String ((Ascii (true, false, true, false, false, true, true, false)),
    (String ((Ascii (false, false, false, true, true, true, true, false)),
    (String ((Ascii (false, false, true, false, true, true, true, false)),
    EmptyString))))))))))))))))))))
    ((sx_dhdr p0.dp_hdr) :: ((slist sx_dmsg p0.dp_msgs) :: []))

(** val assoc_N : n -> (n * 'a1) list -> 'a1 option **)

let rec assoc_N k = function
| [] -> None
| p0 :: t -> let (k', v) = p0 in if N.eqb k k' then Some v else assoc_N k t

type hs_body_id =
| HB_hello_request
| HB_client_hello
| HB_server_hello
| HB_newsessionticket
| HB_end_of_early_data
| HB_hello_retry_request
| HB_certificate
| HB_serverkeyexchange
| HB_certificaterequest
| HB_serverdone
| HB_certificateverify
| HB_clientkeyexchange
| HB_finished
| HB_certificatestatus
| HB_key_update
| HB_next_protocol

type sh_form =
| ShV12 of bool
| ShV13Draft18

type rec_body_id =
| RB_many1_ccs
| RB_many1_alert
| RB_many1_handshake
| RB_many1_appdata
| RB_heartbeat
| RB_once_appdata
| RB_complete_heartbeat

type dtls_rec_body_id =
| DRB_many1_ccs
| DRB_many1_alert
| DRB_many1_handshake

type dtls_hs_body_id =
| DHB_client_hello
| DHB_hello_verify_request
| DHB_server_hello
| DHB_serverdone
| DHB_clientkeyexchange
| DHB_certificate

type ext_content_id =
| XC_sni
| XC_max_fragment_length
| XC_status_request
| XC_elliptic_curves
| XC_ec_point_formats
| XC_signature_algorithms
| XC_heartbeat
| XC_alpn
| XC_signed_certificate_timestamp
| XC_padding
| XC_encrypt_then_mac
| XC_extended_master_secret
| XC_record_size_limit
| XC_session_ticket
| XC_key_share_old
| XC_pre_shared_key
| XC_early_data
| XC_supported_versions
| XC_cookie
| XC_psk_key_exchange_modes
| XC_oid_filters
| XC_post_handshake_auth
| XC_key_share
| XC_npn
| XC_renegotiation_info
| XC_encrypted_server_name

(** val hs_table : (n * hs_body_id) list **)

let hs_table =
  (N0, HB_hello_request) :: (((Npos XH), HB_client_hello) :: (((Npos (XO
    XH)), HB_server_hello) :: (((Npos (XO (XO XH))),
    HB_newsessionticket) :: (((Npos (XI (XO XH))),
    HB_end_of_early_data) :: (((Npos (XO (XI XH))),
    HB_hello_retry_request) :: (((Npos (XI (XI (XO XH)))),
    HB_certificate) :: (((Npos (XO (XO (XI XH)))),
    HB_serverkeyexchange) :: (((Npos (XI (XO (XI XH)))),
    HB_certificaterequest) :: (((Npos (XO (XI (XI XH)))),
    HB_serverdone) :: (((Npos (XI (XI (XI XH)))),
    HB_certificateverify) :: (((Npos (XO (XO (XO (XO XH))))),
    HB_clientkeyexchange) :: (((Npos (XO (XO (XI (XO XH))))),
    HB_finished) :: (((Npos (XO (XI (XI (XO XH))))),
    HB_certificatestatus) :: (((Npos (XO (XO (XO (XI XH))))),
    HB_key_update) :: (((Npos (XI (XI (XO (XO (XO (XO XH))))))),
    HB_next_protocol) :: [])))))))))))))))

(** val sh_versions : (n * sh_form) list **)

let sh_versions =
  ((Npos (XI (XI (XO (XO (XO (XO (XO (XO (XI XH)))))))))), (ShV12
    true)) :: (((Npos (XO (XI (XO (XO (XO (XO (XO (XO (XI XH)))))))))),
    (ShV12 true)) :: (((Npos (XI (XO (XO (XO (XO (XO (XO (XO (XI
    XH)))))))))), (ShV12 true)) :: (((Npos (XO (XO (XO (XO (XO (XO (XO (XO
    (XI XH)))))))))), (ShV12 false)) :: [])))

(** val sh_msg_versions : (n * sh_form) list **)

let sh_msg_versions =
  ((Npos (XO (XI (XO (XO (XI (XO (XO (XO (XI (XI (XI (XI (XI (XI
    XH))))))))))))))), ShV13Draft18) :: (((Npos (XI (XI (XO (XO (XO (XO (XO
    (XO (XI XH)))))))))), (ShV12 true)) :: (((Npos (XO (XI (XO (XO (XO (XO
    (XO (XO (XI XH)))))))))), (ShV12 true)) :: (((Npos (XI (XO (XO (XO (XO
    (XO (XO (XO (XI XH)))))))))), (ShV12 true)) :: (((Npos (XO (XO (XO (XO
    (XO (XO (XO (XO (XI XH)))))))))), (ShV12 false)) :: []))))

(** val rec_table : (n * rec_body_id) list **)

let rec_table =
  ((Npos (XO (XO (XI (XO XH))))), RB_many1_ccs) :: (((Npos (XI (XO (XI (XO
    XH))))), RB_many1_alert) :: (((Npos (XO (XI (XI (XO XH))))),
    RB_many1_handshake) :: (((Npos (XI (XI (XI (XO XH))))),
    RB_once_appdata) :: (((Npos (XO (XO (XO (XI XH))))),
    RB_complete_heartbeat) :: []))))

(** val dtls_rec_table : (n * dtls_rec_body_id) list **)

let dtls_rec_table =
  ((Npos (XO (XO (XI (XO XH))))), DRB_many1_ccs) :: (((Npos (XI (XO (XI (XO
    XH))))), DRB_many1_alert) :: (((Npos (XO (XI (XI (XO XH))))),
    DRB_many1_handshake) :: []))

(** val dtls_hs_table : (n * dtls_hs_body_id) list **)

let dtls_hs_table =
  ((Npos XH), DHB_client_hello) :: (((Npos (XI XH)),
    DHB_hello_verify_request) :: (((Npos (XO XH)),
    DHB_server_hello) :: (((Npos (XO (XI (XI XH)))),
    DHB_serverdone) :: (((Npos (XO (XO (XO (XO XH))))),
    DHB_clientkeyexchange) :: (((Npos (XI (XI (XO XH)))),
    DHB_certificate) :: [])))))

(** val generic_table : (n * ext_content_id) list **)

let generic_table =
  (N0, XC_sni) :: (((Npos XH), XC_max_fragment_length) :: (((Npos (XI (XO
    XH))), XC_status_request) :: (((Npos (XO (XI (XO XH)))),
    XC_elliptic_curves) :: (((Npos (XI (XI (XO XH)))),
    XC_ec_point_formats) :: (((Npos (XI (XO (XI XH)))),
    XC_signature_algorithms) :: (((Npos (XI (XI (XI XH)))),
    XC_heartbeat) :: (((Npos (XO (XO (XO (XO XH))))), XC_alpn) :: (((Npos (XO
    (XI (XO (XO XH))))), XC_signed_certificate_timestamp) :: (((Npos (XI (XO
    (XI (XO XH))))), XC_padding) :: (((Npos (XO (XI (XI (XO XH))))),
    XC_encrypt_then_mac) :: (((Npos (XI (XI (XI (XO XH))))),
    XC_extended_master_secret) :: (((Npos (XO (XO (XI (XI XH))))),
    XC_record_size_limit) :: (((Npos (XI (XI (XO (XO (XO XH)))))),
    XC_session_ticket) :: (((Npos (XO (XO (XO (XI (XO XH)))))),
    XC_key_share_old) :: (((Npos (XI (XO (XO (XI (XO XH)))))),
    XC_pre_shared_key) :: (((Npos (XO (XI (XO (XI (XO XH)))))),
    XC_early_data) :: (((Npos (XI (XI (XO (XI (XO XH)))))),
    XC_supported_versions) :: (((Npos (XO (XO (XI (XI (XO XH)))))),
    XC_cookie) :: (((Npos (XI (XO (XI (XI (XO XH)))))),
    XC_psk_key_exchange_modes) :: (((Npos (XO (XO (XO (XO (XI XH)))))),
    XC_oid_filters) :: (((Npos (XI (XO (XO (XO (XI XH)))))),
    XC_post_handshake_auth) :: (((Npos (XI (XI (XO (XO (XI XH)))))),
    XC_key_share) :: (((Npos (XO (XO (XI (XO (XI (XI (XI (XO (XI (XI (XO (XO
    (XI XH)))))))))))))), XC_npn) :: (((Npos (XI (XO (XO (XO (XO (XO (XO (XO
    (XI (XI (XI (XI (XI (XI (XI XH)))))))))))))))),
    XC_renegotiation_info) :: (((Npos (XO (XI (XI (XI (XO (XO (XI (XI (XI (XI
    (XI (XI (XI (XI (XI XH)))))))))))))))),
    XC_encrypted_server_name) :: [])))))))))))))))))))))))))

(** val client_table : (n * ext_content_id) list **)

let client_table =
  (N0, XC_sni) :: (((Npos XH), XC_max_fragment_length) :: (((Npos (XI (XO
    XH))), XC_status_request) :: (((Npos (XO (XI (XO XH)))),
    XC_elliptic_curves) :: (((Npos (XI (XI (XO XH)))),
    XC_ec_point_formats) :: (((Npos (XI (XO (XI XH)))),
    XC_signature_algorithms) :: (((Npos (XI (XI (XI XH)))),
    XC_heartbeat) :: (((Npos (XO (XO (XO (XO XH))))), XC_alpn) :: (((Npos (XO
    (XI (XO (XO XH))))), XC_signed_certificate_timestamp) :: (((Npos (XI (XO
    (XI (XO XH))))), XC_padding) :: (((Npos (XO (XI (XI (XO XH))))),
    XC_encrypt_then_mac) :: (((Npos (XI (XI (XI (XO XH))))),
    XC_extended_master_secret) :: (((Npos (XO (XO (XI (XI XH))))),
    XC_record_size_limit) :: (((Npos (XI (XI (XO (XO (XO XH)))))),
    XC_session_ticket) :: (((Npos (XI (XO (XO (XI (XO XH)))))),
    XC_pre_shared_key) :: (((Npos (XO (XI (XO (XI (XO XH)))))),
    XC_early_data) :: (((Npos (XI (XI (XO (XI (XO XH)))))),
    XC_supported_versions) :: (((Npos (XO (XO (XI (XI (XO XH)))))),
    XC_cookie) :: (((Npos (XI (XO (XI (XI (XO XH)))))),
    XC_psk_key_exchange_modes) :: (((Npos (XO (XO (XO (XO (XI XH)))))),
    XC_oid_filters) :: (((Npos (XI (XO (XO (XO (XI XH)))))),
    XC_post_handshake_auth) :: (((Npos (XI (XI (XO (XO (XI XH)))))),
    XC_key_share) :: (((Npos (XO (XO (XI (XO (XI (XI (XI (XO (XI (XI (XO (XO
    (XI XH)))))))))))))), XC_npn) :: (((Npos (XI (XO (XO (XO (XO (XO (XO (XO
    (XI (XI (XI (XI (XI (XI (XI XH)))))))))))))))),
    XC_renegotiation_info) :: (((Npos (XO (XI (XI (XI (XO (XO (XI (XI (XI (XI
    (XI (XI (XI (XI (XI XH)))))))))))))))),
    XC_encrypted_server_name) :: []))))))))))))))))))))))))

(** val server_table : (n * ext_content_id) list **)

let server_table =
  (N0, XC_sni) :: (((Npos XH), XC_max_fragment_length) :: (((Npos (XI (XO
    XH))), XC_status_request) :: (((Npos (XI (XI (XO XH)))),
    XC_ec_point_formats) :: (((Npos (XI (XO (XI XH)))),
    XC_signature_algorithms) :: (((Npos (XI (XI (XI XH)))),
    XC_heartbeat) :: (((Npos (XO (XO (XO (XO XH))))), XC_alpn) :: (((Npos (XO
    (XI (XO (XO XH))))), XC_signed_certificate_timestamp) :: (((Npos (XI (XO
    (XI (XO XH))))), XC_encrypt_then_mac) :: (((Npos (XI (XI (XI (XO XH))))),
    XC_extended_master_secret) :: (((Npos (XO (XO (XI (XI XH))))),
    XC_record_size_limit) :: (((Npos (XI (XI (XO (XO (XO XH)))))),
    XC_session_ticket) :: (((Npos (XI (XO (XO (XI (XO XH)))))),
    XC_pre_shared_key) :: (((Npos (XO (XI (XO (XI (XO XH)))))),
    XC_early_data) :: (((Npos (XI (XI (XO (XI (XO XH)))))),
    XC_supported_versions) :: (((Npos (XO (XO (XI (XI (XO XH)))))),
    XC_cookie) :: (((Npos (XI (XI (XO (XO (XI XH)))))),
    XC_key_share) :: (((Npos (XO (XO (XI (XO (XI (XI (XI (XO (XI (XI (XO (XO
    (XI XH)))))))))))))), XC_npn) :: (((Npos (XI (XO (XO (XO (XO (XO (XO (XO
    (XI (XI (XI (XI (XI (XI (XI XH)))))))))))))))),
    XC_renegotiation_info) :: []))))))))))))))))))

(** val grease_mask : n **)

let grease_mask =
  Npos (XI (XI (XI (XI (XO (XO (XO (XO (XI (XI (XI XH)))))))))))

(** val grease_val : n **)

let grease_val =
  Npos (XO (XI (XO (XI (XO (XO (XO (XO (XO (XI (XO XH)))))))))))

(** val tag_sni : n **)

let tag_sni =
  N0

(** val tag_max_fragment_length : n **)

let tag_max_fragment_length =
  Npos XH

(** val tag_status_request : n **)

let tag_status_request =
  Npos (XI (XO XH))

(** val tag_elliptic_curves : n **)

let tag_elliptic_curves =
  Npos (XO (XI (XO XH)))

(** val tag_ec_point_formats : n **)

let tag_ec_point_formats =
  Npos (XO (XI (XO XH)))

(** val tag_signature_algorithms : n **)

let tag_signature_algorithms =
  Npos (XI (XO (XI XH)))

(** val tag_heartbeat : n **)

let tag_heartbeat =
  Npos (XI (XO (XI XH)))

(** val tag_encrypt_then_mac : n **)

let tag_encrypt_then_mac =
  Npos (XO (XI (XI (XO XH))))

(** val tag_extended_master_secret : n **)

let tag_extended_master_secret =
  Npos (XI (XI (XI (XO XH))))

(** val tag_session_ticket : n **)

let tag_session_ticket =
  Npos (XI (XI (XO (XO (XO XH)))))

(** val tag_key_share : n **)

let tag_key_share =
  Npos (XI (XI (XO (XO (XI XH)))))

(** val tag_pre_shared_key : n **)

let tag_pre_shared_key =
  Npos (XO (XO (XO (XI (XO XH)))))

(** val tag_early_data : n **)

let tag_early_data =
  Npos (XO (XI (XO (XI (XO XH)))))

(** val tag_supported_versions : n **)

let tag_supported_versions =
  Npos (XI (XI (XO (XI (XO XH)))))

(** val tag_cookie : n **)

let tag_cookie =
  Npos (XO (XO (XI (XI (XO XH)))))

(** val tag_psk_key_exchange_modes : n **)

let tag_psk_key_exchange_modes =
  Npos (XI (XO (XI (XI (XO XH)))))

(** val parse_cipher_suites : n -> n list p **)

let parse_cipher_suites len =
  if N.eqb len N0
  then Ret []
  else Bind (GetI, (fun i ->
         if (||) (N.eqb (N.modulo len (Npos (XO XH))) (Npos XH))
              (negb (has_len (Obj.magic i).bytes len))
         then ErrK KLengthValue
         else Bind ((Idx len), (fun s ->
                match pairs16 (Obj.magic s).bytes with
                | Some l -> Ret l
                | None -> PanicP))))

(** val parse_compressions_algs : n -> n list p **)

let parse_compressions_algs len =
  if N.eqb len N0
  then Ret []
  else Bind (GetI, (fun i ->
         if negb (has_len (Obj.magic i).bytes len)
         then ErrK KLengthValue
         else Bind ((Idx len), (fun s -> Ret (map b2n (Obj.magic s).bytes)))))

(** val parse_u16_all : n list p **)

let parse_u16_all =
  Bind (GetI, (fun i ->
    let len = slen (Obj.magic i) in
    if N.eqb len N0
    then Ret []
    else if (||) (N.eqb (N.modulo len (Npos (XO XH))) (Npos XH))
              (N.ltb (slen (Obj.magic i)) len)
         then ErrK KLengthValue
         else Bind ((Idx len), (fun s ->
                match pairs16 (Obj.magic s).bytes with
                | Some l -> Ret l
                | None -> PanicP))))

(** val parse_tls_versions : n list p **)

let parse_tls_versions =
  parse_u16_all

(** val opt_ext : slice option p **)

let opt_ext =
  Opt (Cmpl (Obj.magic length_data be_u16))

(** val parse_tls_handshake_client_hello : clientHelloC p **)

let parse_tls_handshake_client_hello =
  Bind ((Obj.magic be_u16), (fun version -> Bind ((Take (Npos (XO (XO (XO (XO
    (XO XH))))))), (fun random -> Bind ((Vrfy ((Obj.magic be_u8), (fun n0 ->
    N.leb (Obj.magic n0) (Npos (XO (XO (XO (XO (XO XH))))))))),
    (fun sidlen -> Bind
    ((Obj.magic cond (N.ltb N0 (Obj.magic sidlen)) (Take (Obj.magic sidlen))),
    (fun sid -> Bind ((Obj.magic be_u16), (fun ciphers_len -> Bind
    ((Obj.magic parse_cipher_suites ciphers_len), (fun ciphers -> Bind
    ((Obj.magic be_u8), (fun comp_len -> Bind
    ((Obj.magic parse_compressions_algs comp_len), (fun comp -> Bind
    ((Obj.magic opt_ext), (fun ext -> Ret { ch_version = (Obj.magic version);
    ch_random = (Obj.magic random); ch_sid = (Obj.magic sid); ch_ciphers =
    (Obj.magic ciphers); ch_comp = (Obj.magic comp); ch_ext =
    (Obj.magic ext) }))))))))))))))))))

(** val parse_tls_handshake_msg_client_hello : tlsMessageHandshake p **)

let parse_tls_handshake_msg_client_hello =
  pmap parse_tls_handshake_client_hello (fun x -> HClientHello x)

(** val parse_certs : slice list p **)

let parse_certs =
  Many0 (Cmpl (Obj.magic length_data be_u24))

(** val parse_tls_server_hello_tlsv12 : bool -> serverHelloC p **)

let parse_tls_server_hello_tlsv12 has_ext =
  Bind ((Obj.magic be_u16), (fun version -> Bind ((Take (Npos (XO (XO (XO (XO
    (XO XH))))))), (fun random -> Bind ((Vrfy ((Obj.magic be_u8), (fun n0 ->
    N.leb (Obj.magic n0) (Npos (XO (XO (XO (XO (XO XH))))))))),
    (fun sidlen -> Bind
    ((Obj.magic cond (N.ltb N0 (Obj.magic sidlen)) (Take (Obj.magic sidlen))),
    (fun sid -> Bind ((Obj.magic be_u16), (fun cipher -> Bind
    ((Obj.magic be_u8), (fun comp -> Bind
    ((if has_ext then Obj.magic opt_ext else Ret (Obj.magic None)),
    (fun ext -> Ret { sh_version = (Obj.magic version); sh_random =
    (Obj.magic random); sh_sid = (Obj.magic sid); sh_cipher =
    (Obj.magic cipher); sh_comp = (Obj.magic comp); sh_ext =
    (Obj.magic ext) }))))))))))))))

(** val parse_tls_handshake_msg_server_hello_tlsv12 :
    bool -> tlsMessageHandshake p **)

let parse_tls_handshake_msg_server_hello_tlsv12 has_ext =
  pmap (parse_tls_server_hello_tlsv12 has_ext) (fun x -> HServerHello x)

(** val parse_tls_handshake_msg_server_hello_tlsv13draft18 :
    tlsMessageHandshake p **)

let parse_tls_handshake_msg_server_hello_tlsv13draft18 =
  Bind ((Obj.magic be_u16), (fun version -> Bind ((Take (Npos (XO (XO (XO (XO
    (XO XH))))))), (fun random -> Bind ((Obj.magic be_u16), (fun cipher ->
    Bind ((Obj.magic opt_ext), (fun ext -> Ret (HServerHelloV13Draft18
    { sh13_version = (Obj.magic version); sh13_random = (Obj.magic random);
    sh13_cipher = (Obj.magic cipher); sh13_ext = (Obj.magic ext) })))))))))

(** val parse_tls_handshake_server_hello : serverHelloC p **)

let parse_tls_handshake_server_hello =
  Bind ((Peek (Obj.magic be_u16)), (fun version ->
    match assoc_N (Obj.magic version) sh_versions with
    | Some s ->
      (match s with
       | ShV12 has_ext -> parse_tls_server_hello_tlsv12 has_ext
       | ShV13Draft18 -> ErrK KTag)
    | None -> ErrK KTag))

(** val parse_tls_handshake_msg_server_hello : tlsMessageHandshake p **)

let parse_tls_handshake_msg_server_hello =
  Bind ((Peek (Obj.magic be_u16)), (fun version ->
    match assoc_N (Obj.magic version) sh_msg_versions with
    | Some s ->
      (match s with
       | ShV12 has_ext -> parse_tls_handshake_msg_server_hello_tlsv12 has_ext
       | ShV13Draft18 -> parse_tls_handshake_msg_server_hello_tlsv13draft18)
    | None -> ErrK KTag))

(** val parse_tls_handshake_msg_newsessionticket :
    n -> tlsMessageHandshake p **)

let parse_tls_handshake_msg_newsessionticket len =
  if N.ltb len (Npos (XO (XO XH)))
  then ErrK KVerify
  else Bind ((Obj.magic be_u32), (fun hint -> Bind ((Take
         (N.sub len (Npos (XO (XO XH))))), (fun ticket -> Ret
         (HNewSessionTicket ((Obj.magic hint), (Obj.magic ticket)))))))

(** val parse_tls_handshake_msg_hello_retry_request :
    tlsMessageHandshake p **)

let parse_tls_handshake_msg_hello_retry_request =
  Bind ((Obj.magic be_u16), (fun version -> Bind ((Obj.magic be_u16),
    (fun cipher -> Bind ((Obj.magic opt_ext), (fun ext -> Ret
    (HHelloRetryRequest { hrr_version = (Obj.magic version); hrr_cipher =
    (Obj.magic cipher); hrr_ext = (Obj.magic ext) })))))))

(** val parse_tls_certificate : slice list p **)

let parse_tls_certificate =
  Bind ((Obj.magic be_u24), (fun cert_len ->
    map_parser (Take (Obj.magic cert_len)) parse_certs))

(** val parse_tls_handshake_msg_certificate : tlsMessageHandshake p **)

let parse_tls_handshake_msg_certificate =
  pmap parse_tls_certificate (fun x -> HCertificate x)

(** val parse_tls_handshake_msg_serverkeyexchange :
    n -> tlsMessageHandshake p **)

let parse_tls_handshake_msg_serverkeyexchange len =
  pmap (Take len) (fun x -> HServerKeyExchange x)

(** val parse_tls_handshake_msg_serverdone : n -> tlsMessageHandshake p **)

let parse_tls_handshake_msg_serverdone len =
  pmap (Take len) (fun x -> HServerDone x)

(** val parse_tls_handshake_msg_certificateverify :
    n -> tlsMessageHandshake p **)

let parse_tls_handshake_msg_certificateverify len =
  pmap (Take len) (fun x -> HCertificateVerify x)

(** val parse_tls_clientkeyexchange : n -> clientKeyExchangeC p **)

let parse_tls_clientkeyexchange len =
  pmap (Take len) (fun x -> CkeUnknown x)

(** val parse_tls_handshake_msg_clientkeyexchange :
    n -> tlsMessageHandshake p **)

let parse_tls_handshake_msg_clientkeyexchange len =
  pmap (parse_tls_clientkeyexchange len) (fun x -> HClientKeyExchange x)

(** val ca_list : slice list p **)

let ca_list =
  Bind ((Obj.magic be_u16), (fun ca_len ->
    map_parser (Take (Obj.magic ca_len)) (Many0 (Cmpl
      (Obj.magic length_data be_u16)))))

(** val parse_certrequest_nosigalg : certRequestC p **)

let parse_certrequest_nosigalg =
  Bind ((Obj.magic length_count_u8_u8), (fun cert_types -> Bind
    ((Obj.magic ca_list), (fun unparsed_ca -> Ret { cr_types =
    (Obj.magic cert_types); cr_sigalgs = None; cr_ca =
    (Obj.magic unparsed_ca) }))))

(** val parse_certrequest_full : certRequestC p **)

let parse_certrequest_full =
  Bind ((Obj.magic length_count_u8_u8), (fun cert_types -> Bind
    ((Obj.magic be_u16), (fun sig_hash_algs_len -> Bind
    ((map_parser (Take (Obj.magic sig_hash_algs_len)) (Many0 (Cmpl
       (Obj.magic be_u16)))), (fun sig_hash_algs -> Bind
    ((Obj.magic ca_list), (fun unparsed_ca -> Ret { cr_types =
    (Obj.magic cert_types); cr_sigalgs = (Some (Obj.magic sig_hash_algs));
    cr_ca = (Obj.magic unparsed_ca) }))))))))

(** val parse_tls_handshake_certificaterequest : certRequestC p **)

let parse_tls_handshake_certificaterequest =
  Alt ((Cmpl parse_certrequest_full), (Cmpl parse_certrequest_nosigalg))

(** val parse_tls_handshake_msg_certificaterequest : tlsMessageHandshake p **)

let parse_tls_handshake_msg_certificaterequest =
  pmap parse_tls_handshake_certificaterequest (fun x -> HCertificateRequest x)

(** val parse_tls_handshake_msg_finished : n -> tlsMessageHandshake p **)

let parse_tls_handshake_msg_finished len =
  pmap (Take len) (fun x -> HFinished x)

(** val parse_tls_handshake_certificatestatus : (n * slice) p **)

let parse_tls_handshake_certificatestatus =
  Bind ((Obj.magic be_u8), (fun status_type -> Bind
    ((Obj.magic length_data be_u24), (fun blob -> Ret
    ((Obj.magic status_type), (Obj.magic blob))))))

(** val parse_tls_handshake_msg_certificatestatus : tlsMessageHandshake p **)

let parse_tls_handshake_msg_certificatestatus =
  pmap parse_tls_handshake_certificatestatus (fun p0 -> HCertificateStatus
    ((fst p0), (snd p0)))

(** val parse_tls_handshake_next_protocol : (slice * slice) p **)

let parse_tls_handshake_next_protocol =
  Bind ((Obj.magic length_data be_u8), (fun selected -> Bind
    ((Obj.magic length_data be_u8), (fun padding -> Ret
    ((Obj.magic selected), (Obj.magic padding))))))

(** val parse_tls_handshake_msg_next_protocol : tlsMessageHandshake p **)

let parse_tls_handshake_msg_next_protocol =
  pmap parse_tls_handshake_next_protocol (fun p0 -> HNextProtocol ((fst p0),
    (snd p0)))

(** val parse_tls_handshake_msg_key_update : tlsMessageHandshake p **)

let parse_tls_handshake_msg_key_update =
  pmap be_u8 (fun x -> HKeyUpdate x)

(** val parse_tls_handshake_msg_hello_request : tlsMessageHandshake p **)

let parse_tls_handshake_msg_hello_request =
  Ret HHelloRequest

(** val hs_body : hs_body_id -> n -> tlsMessageHandshake p **)

let hs_body b hl =
  match b with
  | HB_hello_request -> parse_tls_handshake_msg_hello_request
  | HB_client_hello -> parse_tls_handshake_msg_client_hello
  | HB_server_hello -> parse_tls_handshake_msg_server_hello
  | HB_newsessionticket -> parse_tls_handshake_msg_newsessionticket hl
  | HB_end_of_early_data -> Ret HEndOfEarlyData
  | HB_hello_retry_request -> parse_tls_handshake_msg_hello_retry_request
  | HB_certificate -> parse_tls_handshake_msg_certificate
  | HB_serverkeyexchange -> parse_tls_handshake_msg_serverkeyexchange hl
  | HB_certificaterequest -> parse_tls_handshake_msg_certificaterequest
  | HB_serverdone -> parse_tls_handshake_msg_serverdone hl
  | HB_certificateverify -> parse_tls_handshake_msg_certificateverify hl
  | HB_clientkeyexchange -> parse_tls_handshake_msg_clientkeyexchange hl
  | HB_finished -> parse_tls_handshake_msg_finished hl
  | HB_certificatestatus -> parse_tls_handshake_msg_certificatestatus
  | HB_key_update -> parse_tls_handshake_msg_key_update
  | HB_next_protocol -> parse_tls_handshake_msg_next_protocol

(** val parse_tls_message_handshake : tlsMessage p **)

let parse_tls_message_handshake =
  Bind ((Obj.magic be_u8), (fun ht -> Bind ((Obj.magic be_u24), (fun hl ->
    Bind ((Take (Obj.magic hl)), (fun raw_msg ->
    match assoc_N (Obj.magic ht) hs_table with
    | Some b ->
      Bind ((On ((Obj.magic raw_msg), (Obj.magic hs_body b hl))), (fun msg ->
        Ret (MHandshake (Obj.magic msg))))
    | None -> ErrK KSwitch))))))

(** val mAX_RECORD_LEN : n **)

let mAX_RECORD_LEN =
  Npos (XO (XO (XO (XO (XO (XO (XO (XO (XI (XO (XO (XO (XO (XO
    XH))))))))))))))

(** val parse_tls_message_changecipherspec : tlsMessage p **)

let parse_tls_message_changecipherspec =
  Bind ((Vrfy ((Obj.magic be_u8), (fun t -> N.eqb (Obj.magic t) (Npos XH)))),
    (fun _ -> Ret MChangeCipherSpec))

(** val parse_tls_message_alert : tlsMessage p **)

let parse_tls_message_alert =
  Bind ((Obj.magic be_u8), (fun severity -> Bind ((Obj.magic be_u8),
    (fun code -> Ret (MAlert ((Obj.magic severity), (Obj.magic code)))))))

(** val parse_tls_message_applicationdata : tlsMessage p **)

let parse_tls_message_applicationdata =
  Bind (GetI, (fun i -> Bind ((Take (slen (Obj.magic i))), (fun blob -> Ret
    (MApplicationData (Obj.magic blob))))))

(** val parse_tls_message_heartbeat : n -> tlsMessage list p **)

let parse_tls_message_heartbeat tls_plaintext_len =
  Bind ((Obj.magic be_u8), (fun heartbeat_type -> Bind ((Obj.magic be_u16),
    (fun payload_len ->
    if N.ltb tls_plaintext_len (Npos (XI XH))
    then ErrK KVerify
    else Bind ((Take (Obj.magic payload_len)), (fun payload -> Ret
           ((MHeartbeat ((Obj.magic heartbeat_type), (Obj.magic payload_len),
           (Obj.magic payload))) :: [])))))))

(** val parse_tls_record_header : tlsRecordHeader p **)

let parse_tls_record_header =
  Bind ((Obj.magic be_u8), (fun record_type -> Bind ((Obj.magic be_u16),
    (fun version -> Bind ((Obj.magic be_u16), (fun len -> Ret { h_type =
    (Obj.magic record_type); h_version = (Obj.magic version); h_len =
    (Obj.magic len) }))))))

(** val rec_body : rec_body_id -> tlsRecordHeader -> tlsMessage list p **)

let rec_body b hdr =
  match b with
  | RB_many1_ccs ->
    Many1 (Cmpl (Obj.magic parse_tls_message_changecipherspec))
  | RB_many1_alert -> Many1 (Cmpl (Obj.magic parse_tls_message_alert))
  | RB_many1_handshake -> Many1 (Cmpl (Obj.magic parse_tls_message_handshake))
  | RB_many1_appdata ->
    Many1 (Cmpl (Obj.magic parse_tls_message_applicationdata))
  | RB_heartbeat -> parse_tls_message_heartbeat hdr.h_len
  | RB_once_appdata ->
    pmap parse_tls_message_applicationdata (fun m -> m :: [])
  | RB_complete_heartbeat -> Cmpl (parse_tls_message_heartbeat hdr.h_len)

(** val parse_tls_record_with_header :
    tlsRecordHeader -> tlsMessage list p **)

let parse_tls_record_with_header hdr =
  match assoc_N hdr.h_type rec_table with
  | Some b -> rec_body b hdr
  | None -> ErrK KSwitch

(** val parse_tls_plaintext : tlsPlaintext p **)

let parse_tls_plaintext =
  Bind ((Obj.magic parse_tls_record_header), (fun hdr ->
    if N.ltb mAX_RECORD_LEN (Obj.magic hdr).h_len
    then ErrK KTooLarge
    else Bind
           ((map_parser (Take (Obj.magic hdr).h_len)
              (Obj.magic parse_tls_record_with_header hdr)), (fun msg -> Ret
           { p_hdr = (Obj.magic hdr); p_msg = (Obj.magic msg) }))))

(** val parse_tls_encrypted : tlsEncrypted p **)

let parse_tls_encrypted =
  Bind ((Obj.magic parse_tls_record_header), (fun hdr ->
    if N.ltb mAX_RECORD_LEN (Obj.magic hdr).h_len
    then ErrK KTooLarge
    else Bind ((Take (Obj.magic hdr).h_len), (fun blob -> Ret { e_hdr =
           (Obj.magic hdr); e_blob = (Obj.magic blob) }))))

(** val parse_tls_raw_record : tlsRawRecord p **)

let parse_tls_raw_record =
  Bind ((Obj.magic parse_tls_record_header), (fun hdr ->
    if N.ltb mAX_RECORD_LEN (Obj.magic hdr).h_len
    then ErrK KTooLarge
    else Bind ((Take (Obj.magic hdr).h_len), (fun data -> Ret { r_hdr =
           (Obj.magic hdr); r_data = (Obj.magic data) }))))

(** val tls_parser : tlsPlaintext p **)

let tls_parser =
  parse_tls_plaintext

(** val tls_parser_many : tlsPlaintext list p **)

let tls_parser_many =
  Many1 (Cmpl (Obj.magic parse_tls_plaintext))

(** val parse_tls_extension_sni_hostname : (n * slice) p **)

let parse_tls_extension_sni_hostname =
  Bind ((Obj.magic be_u8), (fun t -> Bind ((Obj.magic length_data be_u16),
    (fun v -> Ret ((Obj.magic t), (Obj.magic v))))))

(** val parse_tls_extension_sni_content : tlsExtension p **)

let parse_tls_extension_sni_content =
  Bind (GetI, (fun i ->
    if N.eqb (slen (Obj.magic i)) N0
    then Ret (ESNI [])
    else Bind ((Obj.magic be_u16), (fun list_len -> Bind
           ((map_parser (Take (Obj.magic list_len)) (Many0 (Cmpl
              (Obj.magic parse_tls_extension_sni_hostname)))), (fun v -> Ret
           (ESNI (Obj.magic v))))))))

(** val parse_tls_extension_max_fragment_length_content : tlsExtension p **)

let parse_tls_extension_max_fragment_length_content =
  pmap be_u8 (fun x -> EMaxFragmentLength x)

(** val parse_tls_extension_status_request_content : n -> tlsExtension p **)

let parse_tls_extension_status_request_content ext_len =
  if N.eqb ext_len N0
  then Ret (EStatusRequest None)
  else Bind ((Obj.magic be_u8), (fun status_type -> Bind ((Take
         (N.sub ext_len (Npos XH))), (fun request -> Ret (EStatusRequest
         (Some ((Obj.magic status_type), (Obj.magic request))))))))

(** val parse_named_groups : n list p **)

let parse_named_groups =
  parse_u16_all

(** val parse_tls_extension_elliptic_curves_content : tlsExtension p **)

let parse_tls_extension_elliptic_curves_content =
  map_parser (length_data be_u16)
    (pmap parse_named_groups (fun x -> EEllipticCurves x))

(** val parse_tls_extension_ec_point_formats_content : tlsExtension p **)

let parse_tls_extension_ec_point_formats_content =
  pmap (length_data be_u8) (fun x -> EEcPointFormats x)

(** val parse_tls_extension_signature_algorithms_content : tlsExtension p **)

let parse_tls_extension_signature_algorithms_content =
  Bind ((map_parser (length_data be_u16) (Many0 (Cmpl (Obj.magic be_u16)))),
    (fun l -> Ret (ESignatureAlgorithms (Obj.magic l))))

(** val parse_tls_extension_heartbeat_content : tlsExtension p **)

let parse_tls_extension_heartbeat_content =
  pmap be_u8 (fun x -> EHeartbeat x)

(** val parse_protocol_name : slice p **)

let parse_protocol_name =
  length_data be_u8

(** val parse_tls_extension_alpn_content : tlsExtension p **)

let parse_tls_extension_alpn_content =
  Bind
    ((map_parser (length_data be_u16) (Many0 (Cmpl
       (Obj.magic parse_protocol_name)))), (fun v -> Ret (EALPN
    (Obj.magic v))))

(** val parse_tls_extension_padding_content : n -> tlsExtension p **)

let parse_tls_extension_padding_content ext_len =
  pmap (Take ext_len) (fun x -> EPadding x)

(** val parse_tls_extension_signed_certificate_timestamp_content :
    tlsExtension p **)

let parse_tls_extension_signed_certificate_timestamp_content =
  pmap (Opt (Cmpl (Obj.magic length_data be_u16))) (fun x ->
    ESignedCertificateTimestamp x)

(** val empty_only : n -> tlsExtension -> tlsExtension p **)

let empty_only ext_len v =
  if negb (N.eqb ext_len N0) then ErrK KVerify else Ret v

(** val parse_tls_extension_encrypt_then_mac_content : n -> tlsExtension p **)

let parse_tls_extension_encrypt_then_mac_content ext_len =
  empty_only ext_len EEncryptThenMac

(** val parse_tls_extension_extended_master_secret_content :
    n -> tlsExtension p **)

let parse_tls_extension_extended_master_secret_content ext_len =
  empty_only ext_len EExtendedMasterSecret

(** val parse_tls_extension_post_handshake_auth_content :
    n -> tlsExtension p **)

let parse_tls_extension_post_handshake_auth_content ext_len =
  empty_only ext_len EPostHandshakeAuth

(** val parse_tls_extension_npn_content : n -> tlsExtension p **)

let parse_tls_extension_npn_content ext_len =
  empty_only ext_len ENextProtocolNegotiation

(** val parse_tls_extension_record_size_limit : tlsExtension p **)

let parse_tls_extension_record_size_limit =
  pmap be_u16 (fun x -> ERecordSizeLimit x)

(** val parse_tls_extension_session_ticket_content : n -> tlsExtension p **)

let parse_tls_extension_session_ticket_content ext_len =
  pmap (Take ext_len) (fun x -> ESessionTicket x)

(** val parse_tls_extension_key_share_old_content : n -> tlsExtension p **)

let parse_tls_extension_key_share_old_content ext_len =
  pmap (Take ext_len) (fun x -> EKeyShareOld x)

(** val parse_tls_extension_key_share_content : n -> tlsExtension p **)

let parse_tls_extension_key_share_content ext_len =
  pmap (Take ext_len) (fun x -> EKeyShare x)

(** val parse_tls_extension_pre_shared_key_content : n -> tlsExtension p **)

let parse_tls_extension_pre_shared_key_content ext_len =
  pmap (Take ext_len) (fun x -> EPreSharedKey x)

(** val parse_tls_extension_early_data_content : n -> tlsExtension p **)

let parse_tls_extension_early_data_content ext_len =
  pmap (cond (N.ltb N0 ext_len) be_u32) (fun x -> EEarlyData x)

(** val parse_tls_extension_supported_versions_content :
    n -> tlsExtension p **)

let parse_tls_extension_supported_versions_content ext_len =
  if N.eqb ext_len (Npos (XO XH))
  then pmap be_u16 (fun x -> ESupportedVersions (x :: []))
  else Bind ((Obj.magic be_u8), (fun _ ->
         if N.eqb ext_len N0
         then ErrK KVerify
         else Bind
                ((map_parser (Take (N.sub ext_len (Npos XH)))
                   (Obj.magic parse_tls_versions)), (fun l -> Ret
                (ESupportedVersions (Obj.magic l))))))

(** val parse_tls_extension_cookie_content : n -> tlsExtension p **)

let parse_tls_extension_cookie_content ext_len =
  pmap (Take ext_len) (fun x -> ECookie x)

(** val parse_tls_extension_psk_key_exchange_modes_content :
    tlsExtension p **)

let parse_tls_extension_psk_key_exchange_modes_content =
  Bind ((Obj.magic length_data be_u8), (fun v -> Ret (EPskExchangeModes
    (Obj.magic v).bytes)))

(** val parse_tls_extension_renegotiation_info_content : tlsExtension p **)

let parse_tls_extension_renegotiation_info_content =
  pmap (length_data be_u8) (fun x -> ERenegotiationInfo x)

(** val parse_tls_extension_encrypted_server_name : tlsExtension p **)

let parse_tls_extension_encrypted_server_name =
  Bind ((Obj.magic be_u16), (fun ciphersuite -> Bind ((Obj.magic be_u16),
    (fun group -> Bind ((Obj.magic length_data be_u16), (fun key_share ->
    Bind ((Obj.magic length_data be_u16), (fun record_digest -> Bind
    ((Obj.magic length_data be_u16), (fun encrypted_sni -> Ret
    (EEncryptedServerName ((Obj.magic ciphersuite), (Obj.magic group),
    (Obj.magic key_share), (Obj.magic record_digest),
    (Obj.magic encrypted_sni)))))))))))))

(** val parse_tls_oid_filter : (slice * slice) p **)

let parse_tls_oid_filter =
  Bind ((Obj.magic length_data be_u8), (fun oid -> Bind
    ((Obj.magic length_data be_u16), (fun val0 -> Ret ((Obj.magic oid),
    (Obj.magic val0))))))

(** val parse_tls_extension_oid_filters : tlsExtension p **)

let parse_tls_extension_oid_filters =
  Bind
    ((map_parser (length_data be_u16) (Many0 (Cmpl
       (Obj.magic parse_tls_oid_filter)))), (fun v -> Ret (EOidFilters
    (Obj.magic v))))

(** val parse_tls_extension_unknown : tlsExtension p **)

let parse_tls_extension_unknown =
  Bind ((Obj.magic be_u16), (fun ext_type -> Bind
    ((Obj.magic length_data be_u16), (fun ext_data -> Ret (EUnknown
    ((Obj.magic ext_type), (Obj.magic ext_data)))))))

(** val ext_content : ext_content_id -> n -> tlsExtension p **)

let ext_content c0 ext_len =
  match c0 with
  | XC_sni -> parse_tls_extension_sni_content
  | XC_max_fragment_length -> parse_tls_extension_max_fragment_length_content
  | XC_status_request -> parse_tls_extension_status_request_content ext_len
  | XC_elliptic_curves -> parse_tls_extension_elliptic_curves_content
  | XC_ec_point_formats -> parse_tls_extension_ec_point_formats_content
  | XC_signature_algorithms ->
    parse_tls_extension_signature_algorithms_content
  | XC_heartbeat -> parse_tls_extension_heartbeat_content
  | XC_alpn -> parse_tls_extension_alpn_content
  | XC_signed_certificate_timestamp ->
    parse_tls_extension_signed_certificate_timestamp_content
  | XC_padding -> parse_tls_extension_padding_content ext_len
  | XC_encrypt_then_mac ->
    parse_tls_extension_encrypt_then_mac_content ext_len
  | XC_extended_master_secret ->
    parse_tls_extension_extended_master_secret_content ext_len
  | XC_record_size_limit -> parse_tls_extension_record_size_limit
  | XC_session_ticket -> parse_tls_extension_session_ticket_content ext_len
  | XC_key_share_old -> parse_tls_extension_key_share_old_content ext_len
  | XC_pre_shared_key -> parse_tls_extension_pre_shared_key_content ext_len
  | XC_early_data -> parse_tls_extension_early_data_content ext_len
  | XC_supported_versions ->
    parse_tls_extension_supported_versions_content ext_len
  | XC_cookie -> parse_tls_extension_cookie_content ext_len
  | XC_psk_key_exchange_modes ->
    parse_tls_extension_psk_key_exchange_modes_content
  | XC_oid_filters -> parse_tls_extension_oid_filters
  | XC_post_handshake_auth ->
    parse_tls_extension_post_handshake_auth_content ext_len
  | XC_key_share -> parse_tls_extension_key_share_content ext_len
  | XC_npn -> parse_tls_extension_npn_content ext_len
  | XC_renegotiation_info -> parse_tls_extension_renegotiation_info_content
  | XC_encrypted_server_name -> parse_tls_extension_encrypted_server_name

(** val dispatch_ext : (n * ext_content_id) list -> tlsExtension p **)

let dispatch_ext tbl =
  Bind ((Obj.magic be_u16), (fun ext_type -> Bind
    ((Obj.magic length_data be_u16), (fun ext_data ->
    if N.eqb (N.coq_land (Obj.magic ext_type) grease_mask) grease_val
    then Ret (EGrease ((Obj.magic ext_type), (Obj.magic ext_data)))
    else let ext_len =
           N.modulo (slen (Obj.magic ext_data)) (Npos (XO (XO (XO (XO (XO (XO
             (XO (XO (XO (XO (XO (XO (XO (XO (XO (XO XH)))))))))))))))))
         in
         (match assoc_N (Obj.magic ext_type) tbl with
          | Some c0 -> On ((Obj.magic ext_data), (ext_content c0 ext_len))
          | None ->
            Ret (EUnknown ((Obj.magic ext_type), (Obj.magic ext_data))))))))

(** val parse_tls_extension : tlsExtension p **)

let parse_tls_extension =
  dispatch_ext generic_table

(** val parse_tls_client_hello_extension : tlsExtension p **)

let parse_tls_client_hello_extension =
  dispatch_ext client_table

(** val parse_tls_server_hello_extension : tlsExtension p **)

let parse_tls_server_hello_extension =
  dispatch_ext server_table

(** val parse_tls_extensions : tlsExtension list p **)

let parse_tls_extensions =
  Many0 (Cmpl (Obj.magic parse_tls_extension))

(** val parse_tls_client_hello_extensions : tlsExtension list p **)

let parse_tls_client_hello_extensions =
  Many0 (Cmpl (Obj.magic parse_tls_client_hello_extension))

(** val parse_tls_server_hello_extensions : tlsExtension list p **)

let parse_tls_server_hello_extensions =
  Many0 (Cmpl (Obj.magic parse_tls_server_hello_extension))

(** val tagged : n -> 'a1 p -> 'a1 p **)

let tagged t p0 =
  Bind ((TagB (u16 t)), (fun _ -> p0))

(** val with_len : (n -> tlsExtension p) -> tlsExtension p **)

let with_len f =
  Bind ((Obj.magic be_u16), (fun ext_len ->
    map_parser (Take (Obj.magic ext_len)) (Obj.magic f ext_len)))

(** val parse_tls_extension_sni : tlsExtension p **)

let parse_tls_extension_sni =
  tagged tag_sni
    (map_parser (length_data be_u16) parse_tls_extension_sni_content)

(** val parse_tls_extension_max_fragment_length : tlsExtension p **)

let parse_tls_extension_max_fragment_length =
  tagged tag_max_fragment_length
    (map_parser (length_data be_u16)
      parse_tls_extension_max_fragment_length_content)

(** val parse_tls_extension_status_request : tlsExtension p **)

let parse_tls_extension_status_request =
  tagged tag_status_request
    (with_len parse_tls_extension_status_request_content)

(** val parse_tls_extension_elliptic_curves : tlsExtension p **)

let parse_tls_extension_elliptic_curves =
  tagged tag_elliptic_curves
    (map_parser (length_data be_u16)
      parse_tls_extension_elliptic_curves_content)

(** val parse_tls_extension_ec_point_formats : tlsExtension p **)

let parse_tls_extension_ec_point_formats =
  tagged tag_ec_point_formats
    (map_parser (length_data be_u16)
      parse_tls_extension_ec_point_formats_content)

(** val parse_tls_extension_signature_algorithms : tlsExtension p **)

let parse_tls_extension_signature_algorithms =
  tagged tag_signature_algorithms
    (map_parser (length_data be_u16)
      parse_tls_extension_signature_algorithms_content)

(** val parse_tls_extension_heartbeat : tlsExtension p **)

let parse_tls_extension_heartbeat =
  tagged tag_heartbeat (Bind ((Vrfy ((Obj.magic be_u16), (fun n0 ->
    N.eqb (Obj.magic n0) (Npos XH)))), (fun ext_len ->
    map_parser (Take (Obj.magic ext_len))
      parse_tls_extension_heartbeat_content)))

(** val parse_tls_extension_encrypt_then_mac : tlsExtension p **)

let parse_tls_extension_encrypt_then_mac =
  tagged tag_encrypt_then_mac
    (with_len parse_tls_extension_encrypt_then_mac_content)

(** val parse_tls_extension_extended_master_secret : tlsExtension p **)

let parse_tls_extension_extended_master_secret =
  tagged tag_extended_master_secret
    (with_len parse_tls_extension_extended_master_secret_content)

(** val parse_tls_extension_session_ticket : tlsExtension p **)

let parse_tls_extension_session_ticket =
  tagged tag_session_ticket
    (with_len parse_tls_extension_session_ticket_content)

(** val parse_tls_extension_key_share : tlsExtension p **)

let parse_tls_extension_key_share =
  tagged tag_key_share (with_len parse_tls_extension_key_share_content)

(** val parse_tls_extension_pre_shared_key : tlsExtension p **)

let parse_tls_extension_pre_shared_key =
  tagged tag_pre_shared_key
    (with_len parse_tls_extension_pre_shared_key_content)

(** val parse_tls_extension_early_data : tlsExtension p **)

let parse_tls_extension_early_data =
  tagged tag_early_data (with_len parse_tls_extension_early_data_content)

(** val parse_tls_extension_supported_versions : tlsExtension p **)

let parse_tls_extension_supported_versions =
  tagged tag_supported_versions
    (with_len parse_tls_extension_supported_versions_content)

(** val parse_tls_extension_cookie : tlsExtension p **)

let parse_tls_extension_cookie =
  tagged tag_cookie (with_len parse_tls_extension_cookie_content)

(** val parse_tls_extension_psk_key_exchange_modes : tlsExtension p **)

let parse_tls_extension_psk_key_exchange_modes =
  tagged tag_psk_key_exchange_modes
    (with_len (fun _ -> parse_tls_extension_psk_key_exchange_modes_content))

(** val parse_dh_params : serverDHParams p **)

let parse_dh_params =
  Bind ((Obj.magic length_data be_u16), (fun p0 -> Bind
    ((Obj.magic length_data be_u16), (fun g0 -> Bind
    ((Obj.magic length_data be_u16), (fun ys -> Ret { dh_p = (Obj.magic p0);
    dh_g = (Obj.magic g0); dh_ys = (Obj.magic ys) }))))))

(** val parse_ec_point : slice p **)

let parse_ec_point =
  length_data be_u8

(** val parse_ec_curve : (slice * slice) p **)

let parse_ec_curve =
  Bind ((Obj.magic length_data be_u8), (fun a -> Bind
    ((Obj.magic length_data be_u8), (fun b -> Ret ((Obj.magic a),
    (Obj.magic b))))))

(** val parse_explicit_prime : explicitPrimeC p **)

let parse_explicit_prime =
  Bind ((Obj.magic length_data be_u8), (fun prime_p -> Bind
    ((Obj.magic parse_ec_curve), (fun ab -> Bind ((Obj.magic parse_ec_point),
    (fun base -> Bind ((Obj.magic length_data be_u8), (fun order -> Bind
    ((Obj.magic length_data be_u8), (fun cofactor -> Ret { ep_prime_p =
    (Obj.magic prime_p); ep_a = (fst (Obj.magic ab)); ep_b =
    (snd (Obj.magic ab)); ep_base = (Obj.magic base); ep_order =
    (Obj.magic order); ep_cofactor = (Obj.magic cofactor) }))))))))))

(** val parse_ec_parameters_content : n -> eCParametersContent p **)

let parse_ec_parameters_content curve_type =
  if N.eqb curve_type (Npos XH)
  then pmap parse_explicit_prime (fun x -> EcExplicitPrime x)
  else if N.eqb curve_type (Npos (XI XH))
       then pmap be_u16 (fun x -> EcNamedGroup x)
       else ErrK KSwitch

(** val parse_ec_parameters : eCParameters p **)

let parse_ec_parameters =
  Bind ((Obj.magic be_u8), (fun curve_type -> Bind
    ((Obj.magic parse_ec_parameters_content curve_type), (fun content -> Ret
    { ec_curve_type = (Obj.magic curve_type); ec_content =
    (Obj.magic content) }))))

(** val parse_ecdh_params : serverECDHParams p **)

let parse_ecdh_params =
  Bind ((Obj.magic parse_ec_parameters), (fun params -> Bind
    ((Obj.magic parse_ec_point), (fun public -> Ret { ecdh_params =
    (Obj.magic params); ecdh_public = (Obj.magic public) }))))

(** val parse_digitally_signed_old : digitallySigned p **)

let parse_digitally_signed_old =
  pmap (length_data be_u16) (fun d -> { ds_alg = None; ds_data = d })

(** val parse_digitally_signed : digitallySigned p **)

let parse_digitally_signed =
  Bind ((Obj.magic be_u8), (fun hash -> Bind ((Obj.magic be_u8), (fun sign ->
    Bind ((Obj.magic length_data be_u16), (fun data -> Ret { ds_alg = (Some
    ((Obj.magic hash), (Obj.magic sign))); ds_data = (Obj.magic data) }))))))

(** val parse_content_and_signature :
    'a1 p -> bool -> ('a1 * digitallySigned) p **)

let parse_content_and_signature fun_ = function
| true ->
  Bind ((Obj.magic fun_), (fun c0 -> Bind
    ((Obj.magic parse_digitally_signed), (fun s -> Ret ((Obj.magic c0),
    (Obj.magic s))))))
| false ->
  Bind ((Obj.magic fun_), (fun c0 -> Bind
    ((Obj.magic parse_digitally_signed_old), (fun s -> Ret ((Obj.magic c0),
    (Obj.magic s))))))

(** val parse_log_id : slice p **)

let parse_log_id =
  Bind ((Take (Npos (XO (XO (XO (XO (XO XH))))))), (fun key_id ->
    if N.eqb (slen (Obj.magic key_id)) (Npos (XO (XO (XO (XO (XO XH))))))
    then Ret (Obj.magic key_id)
    else PanicP))

(** val parse_ct_extensions : slice p **)

let parse_ct_extensions =
  Bind ((Obj.magic be_u16), (fun ext_len -> Take (Obj.magic ext_len)))

(** val parse_ct_signed_certificate_timestamp_content : sCT p **)

let parse_ct_signed_certificate_timestamp_content =
  Bind ((Obj.magic be_u8), (fun version -> Bind ((Obj.magic parse_log_id),
    (fun id -> Bind ((Obj.magic be_u64), (fun timestamp -> Bind
    ((Obj.magic parse_ct_extensions), (fun extensions -> Bind
    ((Obj.magic parse_digitally_signed), (fun signature -> Ret
    { sct_version = (Obj.magic version); sct_id = (Obj.magic id);
    sct_timestamp = (Obj.magic timestamp); sct_ext = (Obj.magic extensions);
    sct_sig = (Obj.magic signature) }))))))))))

(** val parse_ct_signed_certificate_timestamp : sCT p **)

let parse_ct_signed_certificate_timestamp =
  map_parser (length_data be_u16)
    parse_ct_signed_certificate_timestamp_content

(** val parse_ct_signed_certificate_timestamp_list : sCT list p **)

let parse_ct_signed_certificate_timestamp_list =
  Bind ((Obj.magic be_u16), (fun sct_len ->
    map_parser (Take (Obj.magic sct_len)) (Many0 (Cmpl
      (Obj.magic parse_ct_signed_certificate_timestamp)))))

(** val parse_dtls_record_header : dTLSRecordHeader p **)

let parse_dtls_record_header =
  Bind ((Obj.magic be_u8), (fun content_type -> Bind ((Obj.magic be_u16),
    (fun version -> Bind ((Obj.magic be_u64), (fun int0 ->
    let epoch =
      N.modulo (N.shiftr (Obj.magic int0) (Npos (XO (XO (XO (XO (XI XH)))))))
        (Npos (XO (XO (XO (XO (XO (XO (XO (XO (XO (XO (XO (XO (XO (XO (XO (XO
        XH)))))))))))))))))
    in
    let sequence_number =
      N.coq_land (Obj.magic int0) (Npos (XI (XI (XI (XI (XI (XI (XI (XI (XI
        (XI (XI (XI (XI (XI (XI (XI (XI (XI (XI (XI (XI (XI (XI (XI (XI (XI
        (XI (XI (XI (XI (XI (XI (XI (XI (XI (XI (XI (XI (XI (XI (XI (XI (XI
        (XI (XI (XI (XI XH))))))))))))))))))))))))))))))))))))))))))))))))
    in
    Bind ((Obj.magic be_u16), (fun length -> Ret { d_type =
    (Obj.magic content_type); d_version = (Obj.magic version); d_epoch =
    epoch; d_seq = sequence_number; d_len = (Obj.magic length) }))))))))

(** val parse_dtls_fragment : dTLSBody p **)

let parse_dtls_fragment =
  Bind (GetI, (fun i -> Bind ((Take (slen (Obj.magic i))), (fun s -> Ret
    (DFragment (Obj.magic s))))))

(** val parse_dtls_client_hello : dTLSBody p **)

let parse_dtls_client_hello =
  Bind ((Obj.magic be_u16), (fun version -> Bind ((Take (Npos (XO (XO (XO (XO
    (XO XH))))))), (fun random -> Bind ((Vrfy ((Obj.magic be_u8), (fun n0 ->
    N.leb (Obj.magic n0) (Npos (XO (XO (XO (XO (XO XH))))))))),
    (fun sidlen -> Bind
    ((Obj.magic cond (N.ltb N0 (Obj.magic sidlen)) (Take (Obj.magic sidlen))),
    (fun sid -> Bind ((Obj.magic length_data be_u8), (fun cookie -> Bind
    ((Obj.magic be_u16), (fun ciphers_len -> Bind
    ((Obj.magic parse_cipher_suites ciphers_len), (fun ciphers -> Bind
    ((Obj.magic be_u8), (fun comp_len -> Bind
    ((Obj.magic parse_compressions_algs comp_len), (fun comp -> Bind
    ((Obj.magic opt_ext), (fun ext -> Ret (DClientHello { dch_version =
    (Obj.magic version); dch_random = (Obj.magic random); dch_sid =
    (Obj.magic sid); dch_cookie = (Obj.magic cookie); dch_ciphers =
    (Obj.magic ciphers); dch_comp = (Obj.magic comp); dch_ext =
    (Obj.magic ext) })))))))))))))))))))))

(** val parse_dtls_hello_verify_request : dTLSBody p **)

let parse_dtls_hello_verify_request =
  Bind ((Obj.magic be_u16), (fun server_version -> Bind
    ((Obj.magic length_data be_u8), (fun cookie -> Ret (DHelloVerifyRequest
    ((Obj.magic server_version), (Obj.magic cookie)))))))

(** val dtls_hs_body : dtls_hs_body_id -> n -> dTLSBody p **)

let dtls_hs_body b length =
  match b with
  | DHB_client_hello -> parse_dtls_client_hello
  | DHB_hello_verify_request -> parse_dtls_hello_verify_request
  | DHB_server_hello ->
    pmap (parse_tls_server_hello_tlsv12 true) (fun x -> DServerHello x)
  | DHB_serverdone -> pmap (Take length) (fun x -> DServerDone x)
  | DHB_clientkeyexchange ->
    pmap (parse_tls_clientkeyexchange length) (fun x -> DClientKeyExchange x)
  | DHB_certificate -> pmap parse_tls_certificate (fun x -> DCertificate x)

(** val parse_dtls_message_handshake : dTLSMessage p **)

let parse_dtls_message_handshake =
  Bind ((Obj.magic be_u8), (fun msg_type -> Bind ((Obj.magic be_u24),
    (fun length -> Bind ((Obj.magic be_u16), (fun message_seq -> Bind
    ((Obj.magic be_u24), (fun fragment_offset -> Bind ((Obj.magic be_u24),
    (fun fragment_length -> Bind ((Take (Obj.magic fragment_length)),
    (fun raw_msg ->
    let is_fragment =
      (||) (N.ltb N0 (Obj.magic fragment_offset))
        (N.ltb (Obj.magic fragment_length) (Obj.magic length))
    in
    Bind
    ((if is_fragment
      then On ((Obj.magic raw_msg), (Obj.magic parse_dtls_fragment))
      else (match assoc_N (Obj.magic msg_type) dtls_hs_table with
            | Some b ->
              On ((Obj.magic raw_msg), (Obj.magic dtls_hs_body b length))
            | None -> ErrK KSwitch)), (fun body -> Ret (DMHandshake
    { dhs_type = (Obj.magic msg_type); dhs_length = (Obj.magic length);
    dhs_seq = (Obj.magic message_seq); dhs_frag_off =
    (Obj.magic fragment_offset); dhs_frag_len = (Obj.magic fragment_length);
    dhs_body = (Obj.magic body) })))))))))))))))

(** val parse_dtls_message_changecipherspec : dTLSMessage p **)

let parse_dtls_message_changecipherspec =
  Bind ((Vrfy ((Obj.magic be_u8), (fun t -> N.eqb (Obj.magic t) (Npos XH)))),
    (fun _ -> Ret DMChangeCipherSpec))

(** val parse_dtls_message_alert : dTLSMessage p **)

let parse_dtls_message_alert =
  Bind ((Obj.magic be_u8), (fun severity -> Bind ((Obj.magic be_u8),
    (fun code -> Ret (DMAlert ((Obj.magic severity), (Obj.magic code)))))))

(** val dtls_rec_body : dtls_rec_body_id -> dTLSMessage list p **)

let dtls_rec_body = function
| DRB_many1_ccs ->
  Many1 (Cmpl (Obj.magic parse_dtls_message_changecipherspec))
| DRB_many1_alert -> Many1 (Cmpl (Obj.magic parse_dtls_message_alert))
| DRB_many1_handshake -> Many1 (Cmpl (Obj.magic parse_dtls_message_handshake))

(** val parse_dtls_record_with_header :
    dTLSRecordHeader -> dTLSMessage list p **)

let parse_dtls_record_with_header hdr =
  match assoc_N hdr.d_type dtls_rec_table with
  | Some b -> dtls_rec_body b
  | None -> ErrK KSwitch

(** val parse_dtls_plaintext_record : dTLSPlaintext p **)

let parse_dtls_plaintext_record =
  Bind ((Obj.magic parse_dtls_record_header), (fun header ->
    if N.ltb mAX_RECORD_LEN (Obj.magic header).d_len
    then ErrK KTooLarge
    else Bind
           ((map_parser (Take (Obj.magic header).d_len)
              (Obj.magic parse_dtls_record_with_header header)),
           (fun messages -> Ret { dp_hdr = (Obj.magic header); dp_msgs =
           (Obj.magic messages) }))))

(** val parse_dtls_plaintext_records : dTLSPlaintext list p **)

let parse_dtls_plaintext_records =
  Many1 (Cmpl (Obj.magic parse_dtls_plaintext_record))

(** val beq_bytes : byte list -> byte list -> bool **)

let rec beq_bytes a b =
  match a with
  | [] -> (match b with
           | [] -> true
           | _ :: _ -> false)
  | x :: a' ->
    (match b with
     | [] -> false
     | y :: b' -> (&&) (eqb0 x y) (beq_bytes a' b'))

(** val split_on : byte -> byte list -> byte list list **)

let rec split_on sep = function
| [] -> [] :: []
| c0 :: t ->
  (match split_on sep t with
   | [] -> (c0 :: []) :: []
   | cur :: rest ->
     if eqb0 c0 sep then [] :: (cur :: rest) else (c0 :: cur) :: rest)

(** val digit_val : byte -> n **)

let digit_val c0 =
  let n0 = b2n c0 in
  if (&&) (N.leb (Npos (XO (XO (XO (XO (XI XH)))))) n0)
       (N.leb n0 (Npos (XI (XO (XO (XI (XI XH)))))))
  then N.sub n0 (Npos (XO (XO (XO (XO (XI XH))))))
  else if (&&) (N.leb (Npos (XI (XO (XO (XO (XO (XI XH))))))) n0)
            (N.leb n0 (Npos (XO (XI (XI (XO (XO (XI XH))))))))
       then N.sub n0 (Npos (XI (XI (XI (XO (XI (XO XH)))))))
       else if (&&) (N.leb (Npos (XI (XO (XO (XO (XO (XO XH))))))) n0)
                 (N.leb n0 (Npos (XO (XI (XI (XO (XO (XO XH))))))))
            then N.sub n0 (Npos (XI (XI (XI (XO (XI XH))))))
            else N0

(** val parse_dec : byte list -> n **)

let parse_dec l =
  fold_left (fun acc c0 ->
    N.add (N.mul acc (Npos (XO (XI (XO XH))))) (digit_val c0)) l N0

(** val unhex : byte list -> byte list **)

let rec unhex = function
| [] -> []
| a :: l0 ->
  (match l0 with
   | [] -> []
   | b :: t ->
     (n2b
       (N.add (N.mul (digit_val a) (Npos (XO (XO (XO (XO XH))))))
         (digit_val b))) :: (unhex t))

(** val arg : n list -> nat -> n **)

let arg args k =
  nth k args N0

type entry_fn = n list -> byte list -> byte list

(** val e : 'a1 p -> ('a1 -> sx) -> entry_fn **)

let e p0 f _ b =
  show_res f (run p0 { off = N0; bytes = b })

(** val e1 : (n -> 'a1 p) -> ('a1 -> sx) -> entry_fn **)

let e1 p0 f a b =
  show_res f (run (p0 (arg a O)) { off = N0; bytes = b })

(** val sx_pair_ns : (n * slice) -> sx **)

let sx_pair_ns p0 =
  c EmptyString ((SN (fst p0)) :: ((SS (snd p0)) :: []))

(** val sx_pair_ss : (slice * slice) -> sx **)

let sx_pair_ss p0 =
  c EmptyString ((SS (fst p0)) :: ((SS (snd p0)) :: []))

(** val entries_tls : (string * entry_fn) list **)

let entries_tls =
  ((String ((Ascii (false, false, false, false, true, true, true, false)),
    (String ((Ascii (true, false, false, false, false, true, true, false)),
    (String ((Ascii (false, true, false, false, true, true, true, false)),
    (String ((Ascii (true, true, false, false, true, true, true, false)),
    (String ((Ascii (true, false, true, false, false, true, true, false)),
    (String ((Ascii (true, true, true, true, true, false, true, false)),
    (String ((Ascii (false, false, true, false, true, true, true, false)),
    (String ((Ascii (false, false, true, true, false, true, true, false)),
    (String ((Ascii (true, true, false, false, true, true, true, false)),
    (String ((Ascii (true, true, true, true, true, false, true, false)),
    (String ((Ascii (false, true, false, false, true, true, true, false)),
    (String ((Ascii (true, false, true, false, false, true, true, false)),
    (String ((Ascii (true, true, false, false, false, true, true, false)),
    (String ((Ascii (true, true, true, true, false, true, true, false)),
    (String ((Ascii (false, true, false, false, true, true, true, false)),
    (String ((Ascii (false, false, true, false, false, true, true, false)),
    (String ((Ascii (true, true, true, true, true, false, true, false)),
    (String ((Ascii (false, false, false, true, false, true, true, false)),
    (String ((Ascii (true, false, true, false, false, true, true, false)),
    (String ((Ascii (true, false, false, false, false, true, true, false)),
    (String ((Ascii (false, false, true, false, false, true, true, false)),
    (String ((Ascii (true, false, true, false, false, true, true, false)),
    (String ((Ascii (false, true, false, false, true, true, true, false)),
    EmptyString)))))))))))))))))))))))))))))))))))))))))))))),
    (e parse_tls_record_header sx_hdr)) :: (((String ((Ascii (false, false,
    false, false, true, true, true, false)), (String ((Ascii (true, false,
    false, false, false, true, true, false)), (String ((Ascii (false, true,
    false, false, true, true, true, false)), (String ((Ascii (true, true,
    false, false, true, true, true, false)), (String ((Ascii (true, false,
    true, false, false, true, true, false)), (String ((Ascii (true, true,
    true, true, true, false, true, false)), (String ((Ascii (false, false,
    true, false, true, true, true, false)), (String ((Ascii (false, false,
    true, true, false, true, true, false)), (String ((Ascii (true, true,
    false, false, true, true, true, false)), (String ((Ascii (true, true,
    true, true, true, false, true, false)), (String ((Ascii (false, true,
    false, false, true, true, true, false)), (String ((Ascii (true, false,
    true, false, false, true, true, false)), (String ((Ascii (true, true,
    false, false, false, true, true, false)), (String ((Ascii (true, true,
    true, true, false, true, true, false)), (String ((Ascii (false, true,
    false, false, true, true, true, false)), (String ((Ascii (false, false,
    true, false, false, true, true, false)), (String ((Ascii (true, true,
    true, true, true, false, true, false)), (String ((Ascii (true, true,
    true, false, true, true, true, false)), (String ((Ascii (true, false,
    false, true, false, true, true, false)), (String ((Ascii (false, false,
    true, false, true, true, true, false)), (String ((Ascii (false, false,
    false, true, false, true, true, false)), (String ((Ascii (true, true,
    true, true, true, false, true, false)), (String ((Ascii (false, false,
    false, true, false, true, true, false)), (String ((Ascii (true, false,
    true, false, false, true, true, false)), (String ((Ascii (true, false,
    false, false, false, true, true, false)), (String ((Ascii (false, false,
    true, false, false, true, true, false)), (String ((Ascii (true, false,
    true, false, false, true, true, false)), (String ((Ascii (false, true,
    false, false, true, true, true, false)),
    EmptyString)))))))))))))))))))))))))))))))))))))))))))))))))))))))),
    (fun a b ->
    show_res (slist sx_msg)
      (run
        (parse_tls_record_with_header { h_type = (arg a O); h_version =
          (arg a (S O)); h_len = (arg a (S (S O))) }) { off = N0; bytes = b }))) :: (((String
    ((Ascii (false, false, false, false, true, true, true, false)), (String
    ((Ascii (true, false, false, false, false, true, true, false)), (String
    ((Ascii (false, true, false, false, true, true, true, false)), (String
    ((Ascii (true, true, false, false, true, true, true, false)), (String
    ((Ascii (true, false, true, false, false, true, true, false)), (String
    ((Ascii (true, true, true, true, true, false, true, false)), (String
    ((Ascii (false, false, true, false, true, true, true, false)), (String
    ((Ascii (false, false, true, true, false, true, true, false)), (String
    ((Ascii (true, true, false, false, true, true, true, false)), (String
    ((Ascii (true, true, true, true, true, false, true, false)), (String
    ((Ascii (false, false, false, false, true, true, true, false)), (String
    ((Ascii (false, false, true, true, false, true, true, false)), (String
    ((Ascii (true, false, false, false, false, true, true, false)), (String
    ((Ascii (true, false, false, true, false, true, true, false)), (String
    ((Ascii (false, true, true, true, false, true, true, false)), (String
    ((Ascii (false, false, true, false, true, true, true, false)), (String
    ((Ascii (true, false, true, false, false, true, true, false)), (String
    ((Ascii (false, false, false, true, true, true, true, false)), (String
    ((Ascii (false, false, true, false, true, true, true, false)),
    EmptyString)))))))))))))))))))))))))))))))))))))),
    (e parse_tls_plaintext sx_plain)) :: (((String ((Ascii (false, false,
    false, false, true, true, true, false)), (String ((Ascii (true, false,
    false, false, false, true, true, false)), (String ((Ascii (false, true,
    false, false, true, true, true, false)), (String ((Ascii (true, true,
    false, false, true, true, true, false)), (String ((Ascii (true, false,
    true, false, false, true, true, false)), (String ((Ascii (true, true,
    true, true, true, false, true, false)), (String ((Ascii (false, false,
    true, false, true, true, true, false)), (String ((Ascii (false, false,
    true, true, false, true, true, false)), (String ((Ascii (true, true,
    false, false, true, true, true, false)), (String ((Ascii (true, true,
    true, true, true, false, true, false)), (String ((Ascii (true, false,
    true, false, false, true, true, false)), (String ((Ascii (false, true,
    true, true, false, true, true, false)), (String ((Ascii (true, true,
    false, false, false, true, true, false)), (String ((Ascii (false, true,
    false, false, true, true, true, false)), (String ((Ascii (true, false,
    false, true, true, true, true, false)), (String ((Ascii (false, false,
    false, false, true, true, true, false)), (String ((Ascii (false, false,
    true, false, true, true, true, false)), (String ((Ascii (true, false,
    true, false, false, true, true, false)), (String ((Ascii (false, false,
    true, false, false, true, true, false)),
    EmptyString)))))))))))))))))))))))))))))))))))))),
    (e parse_tls_encrypted sx_enc)) :: (((String ((Ascii (false, false,
    false, false, true, true, true, false)), (String ((Ascii (true, false,
    false, false, false, true, true, false)), (String ((Ascii (false, true,
    false, false, true, true, true, false)), (String ((Ascii (true, true,
    false, false, true, true, true, false)), (String ((Ascii (true, false,
    true, false, false, true, true, false)), (String ((Ascii (true, true,
    true, true, true, false, true, false)), (String ((Ascii (false, false,
    true, false, true, true, true, false)), (String ((Ascii (false, false,
    true, true, false, true, true, false)), (String ((Ascii (true, true,
    false, false, true, true, true, false)), (String ((Ascii (true, true,
    true, true, true, false, true, false)), (String ((Ascii (false, true,
    false, false, true, true, true, false)), (String ((Ascii (true, false,
    false, false, false, true, true, false)), (String ((Ascii (true, true,
    true, false, true, true, true, false)), (String ((Ascii (true, true,
    true, true, true, false, true, false)), (String ((Ascii (false, true,
    false, false, true, true, true, false)), (String ((Ascii (true, false,
    true, false, false, true, true, false)), (String ((Ascii (true, true,
    false, false, false, true, true, false)), (String ((Ascii (true, true,
    true, true, false, true, true, false)), (String ((Ascii (false, true,
    false, false, true, true, true, false)), (String ((Ascii (false, false,
    true, false, false, true, true, false)),
    EmptyString)))))))))))))))))))))))))))))))))))))))),
    (e parse_tls_raw_record sx_raw)) :: (((String ((Ascii (false, false,
    true, false, true, true, true, false)), (String ((Ascii (false, false,
    true, true, false, true, true, false)), (String ((Ascii (true, true,
    false, false, true, true, true, false)), (String ((Ascii (true, true,
    true, true, true, false, true, false)), (String ((Ascii (false, false,
    false, false, true, true, true, false)), (String ((Ascii (true, false,
    false, false, false, true, true, false)), (String ((Ascii (false, true,
    false, false, true, true, true, false)), (String ((Ascii (true, true,
    false, false, true, true, true, false)), (String ((Ascii (true, false,
    true, false, false, true, true, false)), (String ((Ascii (false, true,
    false, false, true, true, true, false)), EmptyString)))))))))))))))))))),
    (e tls_parser sx_plain)) :: (((String ((Ascii (false, false, true, false,
    true, true, true, false)), (String ((Ascii (false, false, true, true,
    false, true, true, false)), (String ((Ascii (true, true, false, false,
    true, true, true, false)), (String ((Ascii (true, true, true, true, true,
    false, true, false)), (String ((Ascii (false, false, false, false, true,
    true, true, false)), (String ((Ascii (true, false, false, false, false,
    true, true, false)), (String ((Ascii (false, true, false, false, true,
    true, true, false)), (String ((Ascii (true, true, false, false, true,
    true, true, false)), (String ((Ascii (true, false, true, false, false,
    true, true, false)), (String ((Ascii (false, true, false, false, true,
    true, true, false)), (String ((Ascii (true, true, true, true, true,
    false, true, false)), (String ((Ascii (true, false, true, true, false,
    true, true, false)), (String ((Ascii (true, false, false, false, false,
    true, true, false)), (String ((Ascii (false, true, true, true, false,
    true, true, false)), (String ((Ascii (true, false, false, true, true,
    true, true, false)), EmptyString)))))))))))))))))))))))))))))),
    (e tls_parser_many (slist sx_plain))) :: (((String ((Ascii (false, false,
    false, false, true, true, true, false)), (String ((Ascii (true, false,
    false, false, false, true, true, false)), (String ((Ascii (false, true,
    false, false, true, true, true, false)), (String ((Ascii (true, true,
    false, false, true, true, true, false)), (String ((Ascii (true, false,
    true, false, false, true, true, false)), (String ((Ascii (true, true,
    true, true, true, false, true, false)), (String ((Ascii (false, false,
    true, false, true, true, true, false)), (String ((Ascii (false, false,
    true, true, false, true, true, false)), (String ((Ascii (true, true,
    false, false, true, true, true, false)), (String ((Ascii (true, true,
    true, true, true, false, true, false)), (String ((Ascii (true, false,
    true, true, false, true, true, false)), (String ((Ascii (true, false,
    true, false, false, true, true, false)), (String ((Ascii (true, true,
    false, false, true, true, true, false)), (String ((Ascii (true, true,
    false, false, true, true, true, false)), (String ((Ascii (true, false,
    false, false, false, true, true, false)), (String ((Ascii (true, true,
    true, false, false, true, true, false)), (String ((Ascii (true, false,
    true, false, false, true, true, false)), (String ((Ascii (true, true,
    true, true, true, false, true, false)), (String ((Ascii (true, true,
    false, false, false, true, true, false)), (String ((Ascii (false, false,
    false, true, false, true, true, false)), (String ((Ascii (true, false,
    false, false, false, true, true, false)), (String ((Ascii (false, true,
    true, true, false, true, true, false)), (String ((Ascii (true, true,
    true, false, false, true, true, false)), (String ((Ascii (true, false,
    true, false, false, true, true, false)), (String ((Ascii (true, true,
    false, false, false, true, true, false)), (String ((Ascii (true, false,
    false, true, false, true, true, false)), (String ((Ascii (false, false,
    false, false, true, true, true, false)), (String ((Ascii (false, false,
    false, true, false, true, true, false)), (String ((Ascii (true, false,
    true, false, false, true, true, false)), (String ((Ascii (false, true,
    false, false, true, true, true, false)), (String ((Ascii (true, true,
    false, false, true, true, true, false)), (String ((Ascii (false, false,
    false, false, true, true, true, false)), (String ((Ascii (true, false,
    true, false, false, true, true, false)), (String ((Ascii (true, true,
    false, false, false, true, true, false)),
    EmptyString)))))))))))))))))))))))))))))))))))))))))))))))))))))))))))))))))))),
    (e parse_tls_message_changecipherspec sx_msg)) :: (((String ((Ascii
    (false, false, false, false, true, true, true, false)), (String ((Ascii
    (true, false, false, false, false, true, true, false)), (String ((Ascii
    (false, true, false, false, true, true, true, false)), (String ((Ascii
    (true, true, false, false, true, true, true, false)), (String ((Ascii
    (true, false, true, false, false, true, true, false)), (String ((Ascii
    (true, true, true, true, true, false, true, false)), (String ((Ascii
    (false, false, true, false, true, true, true, false)), (String ((Ascii
    (false, false, true, true, false, true, true, false)), (String ((Ascii
    (true, true, false, false, true, true, true, false)), (String ((Ascii
    (true, true, true, true, true, false, true, false)), (String ((Ascii
    (true, false, true, true, false, true, true, false)), (String ((Ascii
    (true, false, true, false, false, true, true, false)), (String ((Ascii
    (true, true, false, false, true, true, true, false)), (String ((Ascii
    (true, true, false, false, true, true, true, false)), (String ((Ascii
    (true, false, false, false, false, true, true, false)), (String ((Ascii
    (true, true, true, false, false, true, true, false)), (String ((Ascii
    (true, false, true, false, false, true, true, false)), (String ((Ascii
    (true, true, true, true, true, false, true, false)), (String ((Ascii
    (true, false, false, false, false, true, true, false)), (String ((Ascii
    (false, false, true, true, false, true, true, false)), (String ((Ascii
    (true, false, true, false, false, true, true, false)), (String ((Ascii
    (false, true, false, false, true, true, true, false)), (String ((Ascii
    (false, false, true, false, true, true, true, false)),
    EmptyString)))))))))))))))))))))))))))))))))))))))))))))),
    (e parse_tls_message_alert sx_msg)) :: (((String ((Ascii (false, false,
    false, false, true, true, true, false)), (String ((Ascii (true, false,
    false, false, false, true, true, false)), (String ((Ascii (false, true,
    false, false, true, true, true, false)), (String ((Ascii (true, true,
    false, false, true, true, true, false)), (String ((Ascii (true, false,
    true, false, false, true, true, false)), (String ((Ascii (true, true,
    true, true, true, false, true, false)), (String ((Ascii (false, false,
    true, false, true, true, true, false)), (String ((Ascii (false, false,
    true, true, false, true, true, false)), (String ((Ascii (true, true,
    false, false, true, true, true, false)), (String ((Ascii (true, true,
    true, true, true, false, true, false)), (String ((Ascii (true, false,
    true, true, false, true, true, false)), (String ((Ascii (true, false,
    true, false, false, true, true, false)), (String ((Ascii (true, true,
    false, false, true, true, true, false)), (String ((Ascii (true, true,
    false, false, true, true, true, false)), (String ((Ascii (true, false,
    false, false, false, true, true, false)), (String ((Ascii (true, true,
    true, false, false, true, true, false)), (String ((Ascii (true, false,
    true, false, false, true, true, false)), (String ((Ascii (true, true,
    true, true, true, false, true, false)), (String ((Ascii (true, false,
    false, false, false, true, true, false)), (String ((Ascii (false, false,
    false, false, true, true, true, false)), (String ((Ascii (false, false,
    false, false, true, true, true, false)), (String ((Ascii (false, false,
    true, true, false, true, true, false)), (String ((Ascii (true, false,
    false, true, false, true, true, false)), (String ((Ascii (true, true,
    false, false, false, true, true, false)), (String ((Ascii (true, false,
    false, false, false, true, true, false)), (String ((Ascii (false, false,
    true, false, true, true, true, false)), (String ((Ascii (true, false,
    false, true, false, true, true, false)), (String ((Ascii (true, true,
    true, true, false, true, true, false)), (String ((Ascii (false, true,
    true, true, false, true, true, false)), (String ((Ascii (false, false,
    true, false, false, true, true, false)), (String ((Ascii (true, false,
    false, false, false, true, true, false)), (String ((Ascii (false, false,
    true, false, true, true, true, false)), (String ((Ascii (true, false,
    false, false, false, true, true, false)),
    EmptyString)))))))))))))))))))))))))))))))))))))))))))))))))))))))))))))))))),
    (e parse_tls_message_applicationdata sx_msg)) :: (((String ((Ascii
    (false, false, false, false, true, true, true, false)), (String ((Ascii
    (true, false, false, false, false, true, true, false)), (String ((Ascii
    (false, true, false, false, true, true, true, false)), (String ((Ascii
    (true, true, false, false, true, true, true, false)), (String ((Ascii
    (true, false, true, false, false, true, true, false)), (String ((Ascii
    (true, true, true, true, true, false, true, false)), (String ((Ascii
    (false, false, true, false, true, true, true, false)), (String ((Ascii
    (false, false, true, true, false, true, true, false)), (String ((Ascii
    (true, true, false, false, true, true, true, false)), (String ((Ascii
    (true, true, true, true, true, false, true, false)), (String ((Ascii
    (true, false, true, true, false, true, true, false)), (String ((Ascii
    (true, false, true, false, false, true, true, false)), (String ((Ascii
    (true, true, false, false, true, true, true, false)), (String ((Ascii
    (true, true, false, false, true, true, true, false)), (String ((Ascii
    (true, false, false, false, false, true, true, false)), (String ((Ascii
    (true, true, true, false, false, true, true, false)), (String ((Ascii
    (true, false, true, false, false, true, true, false)), (String ((Ascii
    (true, true, true, true, true, false, true, false)), (String ((Ascii
    (false, false, false, true, false, true, true, false)), (String ((Ascii
    (true, false, true, false, false, true, true, false)), (String ((Ascii
    (true, false, false, false, false, true, true, false)), (String ((Ascii
    (false, true, false, false, true, true, true, false)), (String ((Ascii
    (false, false, true, false, true, true, true, false)), (String ((Ascii
    (false, true, false, false, false, true, true, false)), (String ((Ascii
    (true, false, true, false, false, true, true, false)), (String ((Ascii
    (true, false, false, false, false, true, true, false)), (String ((Ascii
    (false, false, true, false, true, true, true, false)),
    EmptyString)))))))))))))))))))))))))))))))))))))))))))))))))))))),
    (e1 parse_tls_message_heartbeat (slist sx_msg))) :: (((String ((Ascii
    (false, false, false, false, true, true, true, false)), (String ((Ascii
    (true, false, false, false, false, true, true, false)), (String ((Ascii
    (false, true, false, false, true, true, true, false)), (String ((Ascii
    (true, true, false, false, true, true, true, false)), (String ((Ascii
    (true, false, true, false, false, true, true, false)), (String ((Ascii
    (true, true, true, true, true, false, true, false)), (String ((Ascii
    (false, false, true, false, true, true, true, false)), (String ((Ascii
    (false, false, true, true, false, true, true, false)), (String ((Ascii
    (true, true, false, false, true, true, true, false)), (String ((Ascii
    (true, true, true, true, true, false, true, false)), (String ((Ascii
    (true, false, true, true, false, true, true, false)), (String ((Ascii
    (true, false, true, false, false, true, true, false)), (String ((Ascii
    (true, true, false, false, true, true, true, false)), (String ((Ascii
    (true, true, false, false, true, true, true, false)), (String ((Ascii
    (true, false, false, false, false, true, true, false)), (String ((Ascii
    (true, true, true, false, false, true, true, false)), (String ((Ascii
    (true, false, true, false, false, true, true, false)), (String ((Ascii
    (true, true, true, true, true, false, true, false)), (String ((Ascii
    (false, false, false, true, false, true, true, false)), (String ((Ascii
    (true, false, false, false, false, true, true, false)), (String ((Ascii
    (false, true, true, true, false, true, true, false)), (String ((Ascii
    (false, false, true, false, false, true, true, false)), (String ((Ascii
    (true, true, false, false, true, true, true, false)), (String ((Ascii
    (false, false, false, true, false, true, true, false)), (String ((Ascii
    (true, false, false, false, false, true, true, false)), (String ((Ascii
    (true, true, false, true, false, true, true, false)), (String ((Ascii
    (true, false, true, false, false, true, true, false)),
    EmptyString)))))))))))))))))))))))))))))))))))))))))))))))))))))),
    (e parse_tls_message_handshake sx_msg)) :: (((String ((Ascii (false,
    false, false, false, true, true, true, false)), (String ((Ascii (true,
    false, false, false, false, true, true, false)), (String ((Ascii (false,
    true, false, false, true, true, true, false)), (String ((Ascii (true,
    true, false, false, true, true, true, false)), (String ((Ascii (true,
    false, true, false, false, true, true, false)), (String ((Ascii (true,
    true, true, true, true, false, true, false)), (String ((Ascii (false,
    false, true, false, true, true, true, false)), (String ((Ascii (false,
    false, true, true, false, true, true, false)), (String ((Ascii (true,
    true, false, false, true, true, true, false)), (String ((Ascii (true,
    true, true, true, true, false, true, false)), (String ((Ascii (false,
    false, false, true, false, true, true, false)), (String ((Ascii (true,
    false, false, false, false, true, true, false)), (String ((Ascii (false,
    true, true, true, false, true, true, false)), (String ((Ascii (false,
    false, true, false, false, true, true, false)), (String ((Ascii (true,
    true, false, false, true, true, true, false)), (String ((Ascii (false,
    false, false, true, false, true, true, false)), (String ((Ascii (true,
    false, false, false, false, true, true, false)), (String ((Ascii (true,
    true, false, true, false, true, true, false)), (String ((Ascii (true,
    false, true, false, false, true, true, false)), (String ((Ascii (true,
    true, true, true, true, false, true, false)), (String ((Ascii (true,
    true, false, false, false, true, true, false)), (String ((Ascii (false,
    false, true, true, false, true, true, false)), (String ((Ascii (true,
    false, false, true, false, true, true, false)), (String ((Ascii (true,
    false, true, false, false, true, true, false)), (String ((Ascii (false,
    true, true, true, false, true, true, false)), (String ((Ascii (false,
    false, true, false, true, true, true, false)), (String ((Ascii (true,
    true, true, true, true, false, true, false)), (String ((Ascii (false,
    false, false, true, false, true, true, false)), (String ((Ascii (true,
    false, true, false, false, true, true, false)), (String ((Ascii (false,
    false, true, true, false, true, true, false)), (String ((Ascii (false,
    false, true, true, false, true, true, false)), (String ((Ascii (true,
    true, true, true, false, true, true, false)),
    EmptyString)))))))))))))))))))))))))))))))))))))))))))))))))))))))))))))))),
    (e parse_tls_handshake_client_hello sx_ch)) :: (((String ((Ascii (false,
    false, false, false, true, true, true, false)), (String ((Ascii (true,
    false, false, false, false, true, true, false)), (String ((Ascii (false,
    true, false, false, true, true, true, false)), (String ((Ascii (true,
    true, false, false, true, true, true, false)), (String ((Ascii (true,
    false, true, false, false, true, true, false)), (String ((Ascii (true,
    true, true, true, true, false, true, false)), (String ((Ascii (false,
    false, true, false, true, true, true, false)), (String ((Ascii (false,
    false, true, true, false, true, true, false)), (String ((Ascii (true,
    true, false, false, true, true, true, false)), (String ((Ascii (true,
    true, true, true, true, false, true, false)), (String ((Ascii (false,
    false, false, true, false, true, true, false)), (String ((Ascii (true,
    false, false, false, false, true, true, false)), (String ((Ascii (false,
    true, true, true, false, true, true, false)), (String ((Ascii (false,
    false, true, false, false, true, true, false)), (String ((Ascii (true,
    true, false, false, true, true, true, false)), (String ((Ascii (false,
    false, false, true, false, true, true, false)), (String ((Ascii (true,
    false, false, false, false, true, true, false)), (String ((Ascii (true,
    true, false, true, false, true, true, false)), (String ((Ascii (true,
    false, true, false, false, true, true, false)), (String ((Ascii (true,
    true, true, true, true, false, true, false)), (String ((Ascii (true,
    true, false, false, true, true, true, false)), (String ((Ascii (true,
    false, true, false, false, true, true, false)), (String ((Ascii (false,
    true, false, false, true, true, true, false)), (String ((Ascii (false,
    true, true, false, true, true, true, false)), (String ((Ascii (true,
    false, true, false, false, true, true, false)), (String ((Ascii (false,
    true, false, false, true, true, true, false)), (String ((Ascii (true,
    true, true, true, true, false, true, false)), (String ((Ascii (false,
    false, false, true, false, true, true, false)), (String ((Ascii (true,
    false, true, false, false, true, true, false)), (String ((Ascii (false,
    false, true, true, false, true, true, false)), (String ((Ascii (false,
    false, true, true, false, true, true, false)), (String ((Ascii (true,
    true, true, true, false, true, true, false)),
    EmptyString)))))))))))))))))))))))))))))))))))))))))))))))))))))))))))))))),
    (e parse_tls_handshake_server_hello sx_sh)) :: (((String ((Ascii (false,
    false, false, false, true, true, true, false)), (String ((Ascii (true,
    false, false, false, false, true, true, false)), (String ((Ascii (false,
    true, false, false, true, true, true, false)), (String ((Ascii (true,
    true, false, false, true, true, true, false)), (String ((Ascii (true,
    false, true, false, false, true, true, false)), (String ((Ascii (true,
    true, true, true, true, false, true, false)), (String ((Ascii (false,
    false, true, false, true, true, true, false)), (String ((Ascii (false,
    false, true, true, false, true, true, false)), (String ((Ascii (true,
    true, false, false, true, true, true, false)), (String ((Ascii (true,
    true, true, true, true, false, true, false)), (String ((Ascii (false,
    false, false, true, false, true, true, false)), (String ((Ascii (true,
    false, false, false, false, true, true, false)), (String ((Ascii (false,
    true, true, true, false, true, true, false)), (String ((Ascii (false,
    false, true, false, false, true, true, false)), (String ((Ascii (true,
    true, false, false, true, true, true, false)), (String ((Ascii (false,
    false, false, true, false, true, true, false)), (String ((Ascii (true,
    false, false, false, false, true, true, false)), (String ((Ascii (true,
    true, false, true, false, true, true, false)), (String ((Ascii (true,
    false, true, false, false, true, true, false)), (String ((Ascii (true,
    true, true, true, true, false, true, false)), (String ((Ascii (true,
    true, false, false, false, true, true, false)), (String ((Ascii (true,
    false, true, false, false, true, true, false)), (String ((Ascii (false,
    true, false, false, true, true, true, false)), (String ((Ascii (false,
    false, true, false, true, true, true, false)), (String ((Ascii (true,
    false, false, true, false, true, true, false)), (String ((Ascii (false,
    true, true, false, false, true, true, false)), (String ((Ascii (true,
    false, false, true, false, true, true, false)), (String ((Ascii (true,
    true, false, false, false, true, true, false)), (String ((Ascii (true,
    false, false, false, false, true, true, false)), (String ((Ascii (false,
    false, true, false, true, true, true, false)), (String ((Ascii (true,
    false, true, false, false, true, true, false)), (String ((Ascii (false,
    true, false, false, true, true, true, false)), (String ((Ascii (true,
    false, true, false, false, true, true, false)), (String ((Ascii (true,
    false, false, false, true, true, true, false)), (String ((Ascii (true,
    false, true, false, true, true, true, false)), (String ((Ascii (true,
    false, true, false, false, true, true, false)), (String ((Ascii (true,
    true, false, false, true, true, true, false)), (String ((Ascii (false,
    false, true, false, true, true, true, false)),
    EmptyString)))))))))))))))))))))))))))))))))))))))))))))))))))))))))))))))))))))))))))),
    (e parse_tls_handshake_certificaterequest sx_cr)) :: (((String ((Ascii
    (false, false, false, false, true, true, true, false)), (String ((Ascii
    (true, false, false, false, false, true, true, false)), (String ((Ascii
    (false, true, false, false, true, true, true, false)), (String ((Ascii
    (true, true, false, false, true, true, true, false)), (String ((Ascii
    (true, false, true, false, false, true, true, false)), (String ((Ascii
    (true, true, true, true, true, false, true, false)), (String ((Ascii
    (false, false, true, false, true, true, true, false)), (String ((Ascii
    (false, false, true, true, false, true, true, false)), (String ((Ascii
    (true, true, false, false, true, true, true, false)), (String ((Ascii
    (true, true, true, true, true, false, true, false)), (String ((Ascii
    (false, false, false, true, false, true, true, false)), (String ((Ascii
    (true, false, false, false, false, true, true, false)), (String ((Ascii
    (false, true, true, true, false, true, true, false)), (String ((Ascii
    (false, false, true, false, false, true, true, false)), (String ((Ascii
    (true, true, false, false, true, true, true, false)), (String ((Ascii
    (false, false, false, true, false, true, true, false)), (String ((Ascii
    (true, false, false, false, false, true, true, false)), (String ((Ascii
    (true, true, false, true, false, true, true, false)), (String ((Ascii
    (true, false, true, false, false, true, true, false)), (String ((Ascii
    (true, true, true, true, true, false, true, false)), (String ((Ascii
    (true, true, false, false, false, true, true, false)), (String ((Ascii
    (true, false, true, false, false, true, true, false)), (String ((Ascii
    (false, true, false, false, true, true, true, false)), (String ((Ascii
    (false, false, true, false, true, true, true, false)), (String ((Ascii
    (true, false, false, true, false, true, true, false)), (String ((Ascii
    (false, true, true, false, false, true, true, false)), (String ((Ascii
    (true, false, false, true, false, true, true, false)), (String ((Ascii
    (true, true, false, false, false, true, true, false)), (String ((Ascii
    (true, false, false, false, false, true, true, false)), (String ((Ascii
    (false, false, true, false, true, true, true, false)), (String ((Ascii
    (true, false, true, false, false, true, true, false)), (String ((Ascii
    (true, true, false, false, true, true, true, false)), (String ((Ascii
    (false, false, true, false, true, true, true, false)), (String ((Ascii
    (true, false, false, false, false, true, true, false)), (String ((Ascii
    (false, false, true, false, true, true, true, false)), (String ((Ascii
    (true, false, true, false, true, true, true, false)), (String ((Ascii
    (true, true, false, false, true, true, true, false)),
    EmptyString)))))))))))))))))))))))))))))))))))))))))))))))))))))))))))))))))))))))))),
    (e parse_tls_handshake_certificatestatus (fun p0 ->
      c (String ((Ascii (true, true, false, false, false, false, true,
        false)), (String ((Ascii (true, false, true, false, false, true,
        true, false)), (String ((Ascii (false, true, false, false, true,
        true, true, false)), (String ((Ascii (false, false, true, false,
        true, true, true, false)), (String ((Ascii (true, false, false, true,
        false, true, true, false)), (String ((Ascii (false, true, true,
        false, false, true, true, false)), (String ((Ascii (true, false,
        false, true, false, true, true, false)), (String ((Ascii (true, true,
        false, false, false, true, true, false)), (String ((Ascii (true,
        false, false, false, false, true, true, false)), (String ((Ascii
        (false, false, true, false, true, true, true, false)), (String
        ((Ascii (true, false, true, false, false, true, true, false)),
        (String ((Ascii (true, true, false, false, true, false, true,
        false)), (String ((Ascii (false, false, true, false, true, true,
        true, false)), (String ((Ascii (true, false, false, false, false,
        true, true, false)), (String ((Ascii (false, false, true, false,
        true, true, true, false)), (String ((Ascii (true, false, true, false,
        true, true, true, false)), (String ((Ascii (true, true, false, false,
        true, true, true, false)),
        EmptyString)))))))))))))))))))))))))))))))))) ((SN (fst p0)) :: ((SS
        (snd p0)) :: []))))) :: (((String ((Ascii (false, false, false,
    false, true, true, true, false)), (String ((Ascii (true, false, false,
    false, false, true, true, false)), (String ((Ascii (false, true, false,
    false, true, true, true, false)), (String ((Ascii (true, true, false,
    false, true, true, true, false)), (String ((Ascii (true, false, true,
    false, false, true, true, false)), (String ((Ascii (true, true, true,
    true, true, false, true, false)), (String ((Ascii (false, false, true,
    false, true, true, true, false)), (String ((Ascii (false, false, true,
    true, false, true, true, false)), (String ((Ascii (true, true, false,
    false, true, true, true, false)), (String ((Ascii (true, true, true,
    true, true, false, true, false)), (String ((Ascii (false, false, false,
    true, false, true, true, false)), (String ((Ascii (true, false, false,
    false, false, true, true, false)), (String ((Ascii (false, true, true,
    true, false, true, true, false)), (String ((Ascii (false, false, true,
    false, false, true, true, false)), (String ((Ascii (true, true, false,
    false, true, true, true, false)), (String ((Ascii (false, false, false,
    true, false, true, true, false)), (String ((Ascii (true, false, false,
    false, false, true, true, false)), (String ((Ascii (true, true, false,
    true, false, true, true, false)), (String ((Ascii (true, false, true,
    false, false, true, true, false)), (String ((Ascii (true, true, true,
    true, true, false, true, false)), (String ((Ascii (false, true, true,
    true, false, true, true, false)), (String ((Ascii (true, false, true,
    false, false, true, true, false)), (String ((Ascii (false, false, false,
    true, true, true, true, false)), (String ((Ascii (false, false, true,
    false, true, true, true, false)), (String ((Ascii (true, true, true,
    true, true, false, true, false)), (String ((Ascii (false, false, false,
    false, true, true, true, false)), (String ((Ascii (false, true, false,
    false, true, true, true, false)), (String ((Ascii (true, true, true,
    true, false, true, true, false)), (String ((Ascii (false, false, true,
    false, true, true, true, false)), (String ((Ascii (true, true, true,
    true, false, true, true, false)), (String ((Ascii (true, true, false,
    false, false, true, true, false)), (String ((Ascii (true, true, true,
    true, false, true, true, false)), (String ((Ascii (false, false, true,
    true, false, true, true, false)),
    EmptyString)))))))))))))))))))))))))))))))))))))))))))))))))))))))))))))))))),
    (e parse_tls_handshake_next_protocol (fun p0 ->
      c (String ((Ascii (false, true, true, true, false, false, true,
        false)), (String ((Ascii (true, false, true, false, false, true,
        true, false)), (String ((Ascii (false, false, false, true, true,
        true, true, false)), (String ((Ascii (false, false, true, false,
        true, true, true, false)), (String ((Ascii (false, false, false,
        false, true, false, true, false)), (String ((Ascii (false, true,
        false, false, true, true, true, false)), (String ((Ascii (true, true,
        true, true, false, true, true, false)), (String ((Ascii (false,
        false, true, false, true, true, true, false)), (String ((Ascii (true,
        true, true, true, false, true, true, false)), (String ((Ascii (true,
        true, false, false, false, true, true, false)), (String ((Ascii
        (true, true, true, true, false, true, true, false)), (String ((Ascii
        (false, false, true, true, false, true, true, false)),
        EmptyString)))))))))))))))))))))))) ((SS (fst p0)) :: ((SS
        (snd p0)) :: []))))) :: (((String ((Ascii (false, false, false,
    false, true, true, true, false)), (String ((Ascii (true, false, false,
    false, false, true, true, false)), (String ((Ascii (false, true, false,
    false, true, true, true, false)), (String ((Ascii (true, true, false,
    false, true, true, true, false)), (String ((Ascii (true, false, true,
    false, false, true, true, false)), (String ((Ascii (true, true, true,
    true, true, false, true, false)), (String ((Ascii (false, false, true,
    false, true, true, true, false)), (String ((Ascii (false, false, true,
    true, false, true, true, false)), (String ((Ascii (true, true, false,
    false, true, true, true, false)), (String ((Ascii (true, true, true,
    true, true, false, true, false)), (String ((Ascii (false, false, false,
    true, false, true, true, false)), (String ((Ascii (true, false, false,
    false, false, true, true, false)), (String ((Ascii (false, true, true,
    true, false, true, true, false)), (String ((Ascii (false, false, true,
    false, false, true, true, false)), (String ((Ascii (true, true, false,
    false, true, true, true, false)), (String ((Ascii (false, false, false,
    true, false, true, true, false)), (String ((Ascii (true, false, false,
    false, false, true, true, false)), (String ((Ascii (true, true, false,
    true, false, true, true, false)), (String ((Ascii (true, false, true,
    false, false, true, true, false)), (String ((Ascii (true, true, true,
    true, true, false, true, false)), (String ((Ascii (true, false, true,
    true, false, true, true, false)), (String ((Ascii (true, true, false,
    false, true, true, true, false)), (String ((Ascii (true, true, true,
    false, false, true, true, false)), (String ((Ascii (true, true, true,
    true, true, false, true, false)), (String ((Ascii (false, false, false,
    true, false, true, true, false)), (String ((Ascii (true, false, true,
    false, false, true, true, false)), (String ((Ascii (false, false, true,
    true, false, true, true, false)), (String ((Ascii (false, false, true,
    true, false, true, true, false)), (String ((Ascii (true, true, true,
    true, false, true, true, false)), (String ((Ascii (true, true, true,
    true, true, false, true, false)), (String ((Ascii (false, true, false,
    false, true, true, true, false)), (String ((Ascii (true, false, true,
    false, false, true, true, false)), (String ((Ascii (true, false, false,
    false, true, true, true, false)), (String ((Ascii (true, false, true,
    false, true, true, true, false)), (String ((Ascii (true, false, true,
    false, false, true, true, false)), (String ((Ascii (true, true, false,
    false, true, true, true, false)), (String ((Ascii (false, false, true,
    false, true, true, true, false)),
    EmptyString)))))))))))))))))))))))))))))))))))))))))))))))))))))))))))))))))))))))))),
    (e parse_tls_handshake_msg_hello_request sx_hs)) :: (((String ((Ascii
    (false, false, false, false, true, true, true, false)), (String ((Ascii
    (true, false, false, false, false, true, true, false)), (String ((Ascii
    (false, true, false, false, true, true, true, false)), (String ((Ascii
    (true, true, false, false, true, true, true, false)), (String ((Ascii
    (true, false, true, false, false, true, true, false)), (String ((Ascii
    (true, true, true, true, true, false, true, false)), (String ((Ascii
    (false, false, true, false, true, true, true, false)), (String ((Ascii
    (false, false, true, true, false, true, true, false)), (String ((Ascii
    (true, true, false, false, true, true, true, false)), (String ((Ascii
    (true, true, true, true, true, false, true, false)), (String ((Ascii
    (false, false, false, true, false, true, true, false)), (String ((Ascii
    (true, false, false, false, false, true, true, false)), (String ((Ascii
    (false, true, true, true, false, true, true, false)), (String ((Ascii
    (false, false, true, false, false, true, true, false)), (String ((Ascii
    (true, true, false, false, true, true, true, false)), (String ((Ascii
    (false, false, false, true, false, true, true, false)), (String ((Ascii
    (true, false, false, false, false, true, true, false)), (String ((Ascii
    (true, true, false, true, false, true, true, false)), (String ((Ascii
    (true, false, true, false, false, true, true, false)), (String ((Ascii
    (true, true, true, true, true, false, true, false)), (String ((Ascii
    (true, false, true, true, false, true, true, false)), (String ((Ascii
    (true, true, false, false, true, true, true, false)), (String ((Ascii
    (true, true, true, false, false, true, true, false)), (String ((Ascii
    (true, true, true, true, true, false, true, false)), (String ((Ascii
    (true, true, false, false, false, true, true, false)), (String ((Ascii
    (false, false, true, true, false, true, true, false)), (String ((Ascii
    (true, false, false, true, false, true, true, false)), (String ((Ascii
    (true, false, true, false, false, true, true, false)), (String ((Ascii
    (false, true, true, true, false, true, true, false)), (String ((Ascii
    (false, false, true, false, true, true, true, false)), (String ((Ascii
    (true, true, true, true, true, false, true, false)), (String ((Ascii
    (false, false, false, true, false, true, true, false)), (String ((Ascii
    (true, false, true, false, false, true, true, false)), (String ((Ascii
    (false, false, true, true, false, true, true, false)), (String ((Ascii
    (false, false, true, true, false, true, true, false)), (String ((Ascii
    (true, true, true, true, false, true, true, false)),
    EmptyString)))))))))))))))))))))))))))))))))))))))))))))))))))))))))))))))))))))))),
    (e parse_tls_handshake_msg_client_hello sx_hs)) :: (((String ((Ascii
    (false, false, false, false, true, true, true, false)), (String ((Ascii
    (true, false, false, false, false, true, true, false)), (String ((Ascii
    (false, true, false, false, true, true, true, false)), (String ((Ascii
    (true, true, false, false, true, true, true, false)), (String ((Ascii
    (true, false, true, false, false, true, true, false)), (String ((Ascii
    (true, true, true, true, true, false, true, false)), (String ((Ascii
    (false, false, true, false, true, true, true, false)), (String ((Ascii
    (false, false, true, true, false, true, true, false)), (String ((Ascii
    (true, true, false, false, true, true, true, false)), (String ((Ascii
    (true, true, true, true, true, false, true, false)), (String ((Ascii
    (false, false, false, true, false, true, true, false)), (String ((Ascii
    (true, false, false, false, false, true, true, false)), (String ((Ascii
    (false, true, true, true, false, true, true, false)), (String ((Ascii
    (false, false, true, false, false, true, true, false)), (String ((Ascii
    (true, true, false, false, true, true, true, false)), (String ((Ascii
    (false, false, false, true, false, true, true, false)), (String ((Ascii
    (true, false, false, false, false, true, true, false)), (String ((Ascii
    (true, true, false, true, false, true, true, false)), (String ((Ascii
    (true, false, true, false, false, true, true, false)), (String ((Ascii
    (true, true, true, true, true, false, true, false)), (String ((Ascii
    (true, false, true, true, false, true, true, false)), (String ((Ascii
    (true, true, false, false, true, true, true, false)), (String ((Ascii
    (true, true, true, false, false, true, true, false)), (String ((Ascii
    (true, true, true, true, true, false, true, false)), (String ((Ascii
    (true, true, false, false, true, true, true, false)), (String ((Ascii
    (true, false, true, false, false, true, true, false)), (String ((Ascii
    (false, true, false, false, true, true, true, false)), (String ((Ascii
    (false, true, true, false, true, true, true, false)), (String ((Ascii
    (true, false, true, false, false, true, true, false)), (String ((Ascii
    (false, true, false, false, true, true, true, false)), (String ((Ascii
    (true, true, true, true, true, false, true, false)), (String ((Ascii
    (false, false, false, true, false, true, true, false)), (String ((Ascii
    (true, false, true, false, false, true, true, false)), (String ((Ascii
    (false, false, true, true, false, true, true, false)), (String ((Ascii
    (false, false, true, true, false, true, true, false)), (String ((Ascii
    (true, true, true, true, false, true, true, false)),
    EmptyString)))))))))))))))))))))))))))))))))))))))))))))))))))))))))))))))))))))))),
    (e parse_tls_handshake_msg_server_hello sx_hs)) :: (((String ((Ascii
    (false, false, false, false, true, true, true, false)), (String ((Ascii
    (true, false, false, false, false, true, true, false)), (String ((Ascii
    (false, true, false, false, true, true, true, false)), (String ((Ascii
    (true, true, false, false, true, true, true, false)), (String ((Ascii
    (true, false, true, false, false, true, true, false)), (String ((Ascii
    (true, true, true, true, true, false, true, false)), (String ((Ascii
    (false, false, true, false, true, true, true, false)), (String ((Ascii
    (false, false, true, true, false, true, true, false)), (String ((Ascii
    (true, true, false, false, true, true, true, false)), (String ((Ascii
    (true, true, true, true, true, false, true, false)), (String ((Ascii
    (false, false, false, true, false, true, true, false)), (String ((Ascii
    (true, false, false, false, false, true, true, false)), (String ((Ascii
    (false, true, true, true, false, true, true, false)), (String ((Ascii
    (false, false, true, false, false, true, true, false)), (String ((Ascii
    (true, true, false, false, true, true, true, false)), (String ((Ascii
    (false, false, false, true, false, true, true, false)), (String ((Ascii
    (true, false, false, false, false, true, true, false)), (String ((Ascii
    (true, true, false, true, false, true, true, false)), (String ((Ascii
    (true, false, true, false, false, true, true, false)), (String ((Ascii
    (true, true, true, true, true, false, true, false)), (String ((Ascii
    (true, false, true, true, false, true, true, false)), (String ((Ascii
    (true, true, false, false, true, true, true, false)), (String ((Ascii
    (true, true, true, false, false, true, true, false)), (String ((Ascii
    (true, true, true, true, true, false, true, false)), (String ((Ascii
    (false, true, true, true, false, true, true, false)), (String ((Ascii
    (true, false, true, false, false, true, true, false)), (String ((Ascii
    (true, true, true, false, true, true, true, false)), (String ((Ascii
    (true, true, false, false, true, true, true, false)), (String ((Ascii
    (true, false, true, false, false, true, true, false)), (String ((Ascii
    (true, true, false, false, true, true, true, false)), (String ((Ascii
    (true, true, false, false, true, true, true, false)), (String ((Ascii
    (true, false, false, true, false, true, true, false)), (String ((Ascii
    (true, true, true, true, false, true, true, false)), (String ((Ascii
    (false, true, true, true, false, true, true, false)), (String ((Ascii
    (false, false, true, false, true, true, true, false)), (String ((Ascii
    (true, false, false, true, false, true, true, false)), (String ((Ascii
    (true, true, false, false, false, true, true, false)), (String ((Ascii
    (true, true, false, true, false, true, true, false)), (String ((Ascii
    (true, false, true, false, false, true, true, false)), (String ((Ascii
    (false, false, true, false, true, true, true, false)),
    EmptyString)))))))))))))))))))))))))))))))))))))))))))))))))))))))))))))))))))))))))))))))),
    (e1 parse_tls_handshake_msg_newsessionticket sx_hs)) :: (((String ((Ascii
    (false, false, false, false, true, true, true, false)), (String ((Ascii
    (true, false, false, false, false, true, true, false)), (String ((Ascii
    (false, true, false, false, true, true, true, false)), (String ((Ascii
    (true, true, false, false, true, true, true, false)), (String ((Ascii
    (true, false, true, false, false, true, true, false)), (String ((Ascii
    (true, true, true, true, true, false, true, false)), (String ((Ascii
    (false, false, true, false, true, true, true, false)), (String ((Ascii
    (false, false, true, true, false, true, true, false)), (String ((Ascii
    (true, true, false, false, true, true, true, false)), (String ((Ascii
    (true, true, true, true, true, false, true, false)), (String ((Ascii
    (false, false, false, true, false, true, true, false)), (String ((Ascii
    (true, false, false, false, false, true, true, false)), (String ((Ascii
    (false, true, true, true, false, true, true, false)), (String ((Ascii
    (false, false, true, false, false, true, true, false)), (String ((Ascii
    (true, true, false, false, true, true, true, false)), (String ((Ascii
    (false, false, false, true, false, true, true, false)), (String ((Ascii
    (true, false, false, false, false, true, true, false)), (String ((Ascii
    (true, true, false, true, false, true, true, false)), (String ((Ascii
    (true, false, true, false, false, true, true, false)), (String ((Ascii
    (true, true, true, true, true, false, true, false)), (String ((Ascii
    (true, false, true, true, false, true, true, false)), (String ((Ascii
    (true, true, false, false, true, true, true, false)), (String ((Ascii
    (true, true, true, false, false, true, true, false)), (String ((Ascii
    (true, true, true, true, true, false, true, false)), (String ((Ascii
    (false, false, false, true, false, true, true, false)), (String ((Ascii
    (true, false, true, false, false, true, true, false)), (String ((Ascii
    (false, false, true, true, false, true, true, false)), (String ((Ascii
    (false, false, true, true, false, true, true, false)), (String ((Ascii
    (true, true, true, true, false, true, true, false)), (String ((Ascii
    (true, true, true, true, true, false, true, false)), (String ((Ascii
    (false, true, false, false, true, true, true, false)), (String ((Ascii
    (true, false, true, false, false, true, true, false)), (String ((Ascii
    (false, false, true, false, true, true, true, false)), (String ((Ascii
    (false, true, false, false, true, true, true, false)), (String ((Ascii
    (true, false, false, true, true, true, true, false)), (String ((Ascii
    (true, true, true, true, true, false, true, false)), (String ((Ascii
    (false, true, false, false, true, true, true, false)), (String ((Ascii
    (true, false, true, false, false, true, true, false)), (String ((Ascii
    (true, false, false, false, true, true, true, false)), (String ((Ascii
    (true, false, true, false, true, true, true, false)), (String ((Ascii
    (true, false, true, false, false, true, true, false)), (String ((Ascii
    (true, true, false, false, true, true, true, false)), (String ((Ascii
    (false, false, true, false, true, true, true, false)),
    EmptyString)))))))))))))))))))))))))))))))))))))))))))))))))))))))))))))))))))))))))))))))))))))),
    (e parse_tls_handshake_msg_hello_retry_request sx_hs)) :: (((String
    ((Ascii (false, false, false, false, true, true, true, false)), (String
    ((Ascii (true, false, false, false, false, true, true, false)), (String
    ((Ascii (false, true, false, false, true, true, true, false)), (String
    ((Ascii (true, true, false, false, true, true, true, false)), (String
    ((Ascii (true, false, true, false, false, true, true, false)), (String
    ((Ascii (true, true, true, true, true, false, true, false)), (String
    ((Ascii (false, false, true, false, true, true, true, false)), (String
    ((Ascii (false, false, true, true, false, true, true, false)), (String
    ((Ascii (true, true, false, false, true, true, true, false)), (String
    ((Ascii (true, true, true, true, true, false, true, false)), (String
    ((Ascii (false, false, false, true, false, true, true, false)), (String
    ((Ascii (true, false, false, false, false, true, true, false)), (String
    ((Ascii (false, true, true, true, false, true, true, false)), (String
    ((Ascii (false, false, true, false, false, true, true, false)), (String
    ((Ascii (true, true, false, false, true, true, true, false)), (String
    ((Ascii (false, false, false, true, false, true, true, false)), (String
    ((Ascii (true, false, false, false, false, true, true, false)), (String
    ((Ascii (true, true, false, true, false, true, true, false)), (String
    ((Ascii (true, false, true, false, false, true, true, false)), (String
    ((Ascii (true, true, true, true, true, false, true, false)), (String
    ((Ascii (true, false, true, true, false, true, true, false)), (String
    ((Ascii (true, true, false, false, true, true, true, false)), (String
    ((Ascii (true, true, true, false, false, true, true, false)), (String
    ((Ascii (true, true, true, true, true, false, true, false)), (String
    ((Ascii (true, true, false, false, false, true, true, false)), (String
    ((Ascii (true, false, true, false, false, true, true, false)), (String
    ((Ascii (false, true, false, false, true, true, true, false)), (String
    ((Ascii (false, false, true, false, true, true, true, false)), (String
    ((Ascii (true, false, false, true, false, true, true, false)), (String
    ((Ascii (false, true, true, false, false, true, true, false)), (String
    ((Ascii (true, false, false, true, false, true, true, false)), (String
    ((Ascii (true, true, false, false, false, true, true, false)), (String
    ((Ascii (true, false, false, false, false, true, true, false)), (String
    ((Ascii (false, false, true, false, true, true, true, false)), (String
    ((Ascii (true, false, true, false, false, true, true, false)),
    EmptyString)))))))))))))))))))))))))))))))))))))))))))))))))))))))))))))))))))))),
    (e parse_tls_handshake_msg_certificate sx_hs)) :: (((String ((Ascii
    (false, false, false, false, true, true, true, false)), (String ((Ascii
    (true, false, false, false, false, true, true, false)), (String ((Ascii
    (false, true, false, false, true, true, true, false)), (String ((Ascii
    (true, true, false, false, true, true, true, false)), (String ((Ascii
    (true, false, true, false, false, true, true, false)), (String ((Ascii
    (true, true, true, true, true, false, true, false)), (String ((Ascii
    (false, false, true, false, true, true, true, false)), (String ((Ascii
    (false, false, true, true, false, true, true, false)), (String ((Ascii
    (true, true, false, false, true, true, true, false)), (String ((Ascii
    (true, true, true, true, true, false, true, false)), (String ((Ascii
    (false, false, false, true, false, true, true, false)), (String ((Ascii
    (true, false, false, false, false, true, true, false)), (String ((Ascii
    (false, true, true, true, false, true, true, false)), (String ((Ascii
    (false, false, true, false, false, true, true, false)), (String ((Ascii
    (true, true, false, false, true, true, true, false)), (String ((Ascii
    (false, false, false, true, false, true, true, false)), (String ((Ascii
    (true, false, false, false, false, true, true, false)), (String ((Ascii
    (true, true, false, true, false, true, true, false)), (String ((Ascii
    (true, false, true, false, false, true, true, false)), (String ((Ascii
    (true, true, true, true, true, false, true, false)), (String ((Ascii
    (true, false, true, true, false, true, true, false)), (String ((Ascii
    (true, true, false, false, true, true, true, false)), (String ((Ascii
    (true, true, true, false, false, true, true, false)), (String ((Ascii
    (true, true, true, true, true, false, true, false)), (String ((Ascii
    (true, true, false, false, true, true, true, false)), (String ((Ascii
    (true, false, true, false, false, true, true, false)), (String ((Ascii
    (false, true, false, false, true, true, true, false)), (String ((Ascii
    (false, true, true, false, true, true, true, false)), (String ((Ascii
    (true, false, true, false, false, true, true, false)), (String ((Ascii
    (false, true, false, false, true, true, true, false)), (String ((Ascii
    (true, true, false, true, false, true, true, false)), (String ((Ascii
    (true, false, true, false, false, true, true, false)), (String ((Ascii
    (true, false, false, true, true, true, true, false)), (String ((Ascii
    (true, false, true, false, false, true, true, false)), (String ((Ascii
    (false, false, false, true, true, true, true, false)), (String ((Ascii
    (true, true, false, false, false, true, true, false)), (String ((Ascii
    (false, false, false, true, false, true, true, false)), (String ((Ascii
    (true, false, false, false, false, true, true, false)), (String ((Ascii
    (false, true, true, true, false, true, true, false)), (String ((Ascii
    (true, true, true, false, false, true, true, false)), (String ((Ascii
    (true, false, true, false, false, true, true, false)),
    EmptyString)))))))))))))))))))))))))))))))))))))))))))))))))))))))))))))))))))))))))))))))))),
    (e1 parse_tls_handshake_msg_serverkeyexchange sx_hs)) :: (((String
    ((Ascii (false, false, false, false, true, true, true, false)), (String
    ((Ascii (true, false, false, false, false, true, true, false)), (String
    ((Ascii (false, true, false, false, true, true, true, false)), (String
    ((Ascii (true, true, false, false, true, true, true, false)), (String
    ((Ascii (true, false, true, false, false, true, true, false)), (String
    ((Ascii (true, true, true, true, true, false, true, false)), (String
    ((Ascii (false, false, true, false, true, true, true, false)), (String
    ((Ascii (false, false, true, true, false, true, true, false)), (String
    ((Ascii (true, true, false, false, true, true, true, false)), (String
    ((Ascii (true, true, true, true, true, false, true, false)), (String
    ((Ascii (false, false, false, true, false, true, true, false)), (String
    ((Ascii (true, false, false, false, false, true, true, false)), (String
    ((Ascii (false, true, true, true, false, true, true, false)), (String
    ((Ascii (false, false, true, false, false, true, true, false)), (String
    ((Ascii (true, true, false, false, true, true, true, false)), (String
    ((Ascii (false, false, false, true, false, true, true, false)), (String
    ((Ascii (true, false, false, false, false, true, true, false)), (String
    ((Ascii (true, true, false, true, false, true, true, false)), (String
    ((Ascii (true, false, true, false, false, true, true, false)), (String
    ((Ascii (true, true, true, true, true, false, true, false)), (String
    ((Ascii (true, false, true, true, false, true, true, false)), (String
    ((Ascii (true, true, false, false, true, true, true, false)), (String
    ((Ascii (true, true, true, false, false, true, true, false)), (String
    ((Ascii (true, true, true, true, true, false, true, false)), (String
    ((Ascii (true, true, false, false, true, true, true, false)), (String
    ((Ascii (true, false, true, false, false, true, true, false)), (String
    ((Ascii (false, true, false, false, true, true, true, false)), (String
    ((Ascii (false, true, true, false, true, true, true, false)), (String
    ((Ascii (true, false, true, false, false, true, true, false)), (String
    ((Ascii (false, true, false, false, true, true, true, false)), (String
    ((Ascii (false, false, true, false, false, true, true, false)), (String
    ((Ascii (true, true, true, true, false, true, true, false)), (String
    ((Ascii (false, true, true, true, false, true, true, false)), (String
    ((Ascii (true, false, true, false, false, true, true, false)),
    EmptyString)))))))))))))))))))))))))))))))))))))))))))))))))))))))))))))))))))),
    (e1 parse_tls_handshake_msg_serverdone sx_hs)) :: (((String ((Ascii
    (false, false, false, false, true, true, true, false)), (String ((Ascii
    (true, false, false, false, false, true, true, false)), (String ((Ascii
    (false, true, false, false, true, true, true, false)), (String ((Ascii
    (true, true, false, false, true, true, true, false)), (String ((Ascii
    (true, false, true, false, false, true, true, false)), (String ((Ascii
    (true, true, true, true, true, false, true, false)), (String ((Ascii
    (false, false, true, false, true, true, true, false)), (String ((Ascii
    (false, false, true, true, false, true, true, false)), (String ((Ascii
    (true, true, false, false, true, true, true, false)), (String ((Ascii
    (true, true, true, true, true, false, true, false)), (String ((Ascii
    (false, false, false, true, false, true, true, false)), (String ((Ascii
    (true, false, false, false, false, true, true, false)), (String ((Ascii
    (false, true, true, true, false, true, true, false)), (String ((Ascii
    (false, false, true, false, false, true, true, false)), (String ((Ascii
    (true, true, false, false, true, true, true, false)), (String ((Ascii
    (false, false, false, true, false, true, true, false)), (String ((Ascii
    (true, false, false, false, false, true, true, false)), (String ((Ascii
    (true, true, false, true, false, true, true, false)), (String ((Ascii
    (true, false, true, false, false, true, true, false)), (String ((Ascii
    (true, true, true, true, true, false, true, false)), (String ((Ascii
    (true, false, true, true, false, true, true, false)), (String ((Ascii
    (true, true, false, false, true, true, true, false)), (String ((Ascii
    (true, true, true, false, false, true, true, false)), (String ((Ascii
    (true, true, true, true, true, false, true, false)), (String ((Ascii
    (true, true, false, false, false, true, true, false)), (String ((Ascii
    (true, false, true, false, false, true, true, false)), (String ((Ascii
    (false, true, false, false, true, true, true, false)), (String ((Ascii
    (false, false, true, false, true, true, true, false)), (String ((Ascii
    (true, false, false, true, false, true, true, false)), (String ((Ascii
    (false, true, true, false, false, true, true, false)), (String ((Ascii
    (true, false, false, true, false, true, true, false)), (String ((Ascii
    (true, true, false, false, false, true, true, false)), (String ((Ascii
    (true, false, false, false, false, true, true, false)), (String ((Ascii
    (false, false, true, false, true, true, true, false)), (String ((Ascii
    (true, false, true, false, false, true, true, false)), (String ((Ascii
    (false, true, true, false, true, true, true, false)), (String ((Ascii
    (true, false, true, false, false, true, true, false)), (String ((Ascii
    (false, true, false, false, true, true, true, false)), (String ((Ascii
    (true, false, false, true, false, true, true, false)), (String ((Ascii
    (false, true, true, false, false, true, true, false)), (String ((Ascii
    (true, false, false, true, true, true, true, false)),
    EmptyString)))))))))))))))))))))))))))))))))))))))))))))))))))))))))))))))))))))))))))))))))),
    (e1 parse_tls_handshake_msg_certificateverify sx_hs)) :: (((String
    ((Ascii (false, false, false, false, true, true, true, false)), (String
    ((Ascii (true, false, false, false, false, true, true, false)), (String
    ((Ascii (false, true, false, false, true, true, true, false)), (String
    ((Ascii (true, true, false, false, true, true, true, false)), (String
    ((Ascii (true, false, true, false, false, true, true, false)), (String
    ((Ascii (true, true, true, true, true, false, true, false)), (String
    ((Ascii (false, false, true, false, true, true, true, false)), (String
    ((Ascii (false, false, true, true, false, true, true, false)), (String
    ((Ascii (true, true, false, false, true, true, true, false)), (String
    ((Ascii (true, true, true, true, true, false, true, false)), (String
    ((Ascii (false, false, false, true, false, true, true, false)), (String
    ((Ascii (true, false, false, false, false, true, true, false)), (String
    ((Ascii (false, true, true, true, false, true, true, false)), (String
    ((Ascii (false, false, true, false, false, true, true, false)), (String
    ((Ascii (true, true, false, false, true, true, true, false)), (String
    ((Ascii (false, false, false, true, false, true, true, false)), (String
    ((Ascii (true, false, false, false, false, true, true, false)), (String
    ((Ascii (true, true, false, true, false, true, true, false)), (String
    ((Ascii (true, false, true, false, false, true, true, false)), (String
    ((Ascii (true, true, true, true, true, false, true, false)), (String
    ((Ascii (true, false, true, true, false, true, true, false)), (String
    ((Ascii (true, true, false, false, true, true, true, false)), (String
    ((Ascii (true, true, true, false, false, true, true, false)), (String
    ((Ascii (true, true, true, true, true, false, true, false)), (String
    ((Ascii (true, true, false, false, false, true, true, false)), (String
    ((Ascii (false, false, true, true, false, true, true, false)), (String
    ((Ascii (true, false, false, true, false, true, true, false)), (String
    ((Ascii (true, false, true, false, false, true, true, false)), (String
    ((Ascii (false, true, true, true, false, true, true, false)), (String
    ((Ascii (false, false, true, false, true, true, true, false)), (String
    ((Ascii (true, true, false, true, false, true, true, false)), (String
    ((Ascii (true, false, true, false, false, true, true, false)), (String
    ((Ascii (true, false, false, true, true, true, true, false)), (String
    ((Ascii (true, false, true, false, false, true, true, false)), (String
    ((Ascii (false, false, false, true, true, true, true, false)), (String
    ((Ascii (true, true, false, false, false, true, true, false)), (String
    ((Ascii (false, false, false, true, false, true, true, false)), (String
    ((Ascii (true, false, false, false, false, true, true, false)), (String
    ((Ascii (false, true, true, true, false, true, true, false)), (String
    ((Ascii (true, true, true, false, false, true, true, false)), (String
    ((Ascii (true, false, true, false, false, true, true, false)),
    EmptyString)))))))))))))))))))))))))))))))))))))))))))))))))))))))))))))))))))))))))))))))))),
    (e1 parse_tls_handshake_msg_clientkeyexchange sx_hs)) :: (((String
    ((Ascii (false, false, false, false, true, true, true, false)), (String
    ((Ascii (true, false, false, false, false, true, true, false)), (String
    ((Ascii (false, true, false, false, true, true, true, false)), (String
    ((Ascii (true, true, false, false, true, true, true, false)), (String
    ((Ascii (true, false, true, false, false, true, true, false)), (String
    ((Ascii (true, true, true, true, true, false, true, false)), (String
    ((Ascii (false, false, true, false, true, true, true, false)), (String
    ((Ascii (false, false, true, true, false, true, true, false)), (String
    ((Ascii (true, true, false, false, true, true, true, false)), (String
    ((Ascii (true, true, true, true, true, false, true, false)), (String
    ((Ascii (false, false, false, true, false, true, true, false)), (String
    ((Ascii (true, false, false, false, false, true, true, false)), (String
    ((Ascii (false, true, true, true, false, true, true, false)), (String
    ((Ascii (false, false, true, false, false, true, true, false)), (String
    ((Ascii (true, true, false, false, true, true, true, false)), (String
    ((Ascii (false, false, false, true, false, true, true, false)), (String
    ((Ascii (true, false, false, false, false, true, true, false)), (String
    ((Ascii (true, true, false, true, false, true, true, false)), (String
    ((Ascii (true, false, true, false, false, true, true, false)), (String
    ((Ascii (true, true, true, true, true, false, true, false)), (String
    ((Ascii (true, false, true, true, false, true, true, false)), (String
    ((Ascii (true, true, false, false, true, true, true, false)), (String
    ((Ascii (true, true, true, false, false, true, true, false)), (String
    ((Ascii (true, true, true, true, true, false, true, false)), (String
    ((Ascii (true, true, false, false, false, true, true, false)), (String
    ((Ascii (true, false, true, false, false, true, true, false)), (String
    ((Ascii (false, true, false, false, true, true, true, false)), (String
    ((Ascii (false, false, true, false, true, true, true, false)), (String
    ((Ascii (true, false, false, true, false, true, true, false)), (String
    ((Ascii (false, true, true, false, false, true, true, false)), (String
    ((Ascii (true, false, false, true, false, true, true, false)), (String
    ((Ascii (true, true, false, false, false, true, true, false)), (String
    ((Ascii (true, false, false, false, false, true, true, false)), (String
    ((Ascii (false, false, true, false, true, true, true, false)), (String
    ((Ascii (true, false, true, false, false, true, true, false)), (String
    ((Ascii (false, true, false, false, true, true, true, false)), (String
    ((Ascii (true, false, true, false, false, true, true, false)), (String
    ((Ascii (true, false, false, false, true, true, true, false)), (String
    ((Ascii (true, false, true, false, true, true, true, false)), (String
    ((Ascii (true, false, true, false, false, true, true, false)), (String
    ((Ascii (true, true, false, false, true, true, true, false)), (String
    ((Ascii (false, false, true, false, true, true, true, false)),
    EmptyString)))))))))))))))))))))))))))))))))))))))))))))))))))))))))))))))))))))))))))))))))))),
    (e parse_tls_handshake_msg_certificaterequest sx_hs)) :: (((String
    ((Ascii (false, false, false, false, true, true, true, false)), (String
    ((Ascii (true, false, false, false, false, true, true, false)), (String
    ((Ascii (false, true, false, false, true, true, true, false)), (String
    ((Ascii (true, true, false, false, true, true, true, false)), (String
    ((Ascii (true, false, true, false, false, true, true, false)), (String
    ((Ascii (true, true, true, true, true, false, true, false)), (String
    ((Ascii (false, false, true, false, true, true, true, false)), (String
    ((Ascii (false, false, true, true, false, true, true, false)), (String
    ((Ascii (true, true, false, false, true, true, true, false)), (String
    ((Ascii (true, true, true, true, true, false, true, false)), (String
    ((Ascii (false, false, false, true, false, true, true, false)), (String
    ((Ascii (true, false, false, false, false, true, true, false)), (String
    ((Ascii (false, true, true, true, false, true, true, false)), (String
    ((Ascii (false, false, true, false, false, true, true, false)), (String
    ((Ascii (true, true, false, false, true, true, true, false)), (String
    ((Ascii (false, false, false, true, false, true, true, false)), (String
    ((Ascii (true, false, false, false, false, true, true, false)), (String
    ((Ascii (true, true, false, true, false, true, true, false)), (String
    ((Ascii (true, false, true, false, false, true, true, false)), (String
    ((Ascii (true, true, true, true, true, false, true, false)), (String
    ((Ascii (true, false, true, true, false, true, true, false)), (String
    ((Ascii (true, true, false, false, true, true, true, false)), (String
    ((Ascii (true, true, true, false, false, true, true, false)), (String
    ((Ascii (true, true, true, true, true, false, true, false)), (String
    ((Ascii (false, true, true, false, false, true, true, false)), (String
    ((Ascii (true, false, false, true, false, true, true, false)), (String
    ((Ascii (false, true, true, true, false, true, true, false)), (String
    ((Ascii (true, false, false, true, false, true, true, false)), (String
    ((Ascii (true, true, false, false, true, true, true, false)), (String
    ((Ascii (false, false, false, true, false, true, true, false)), (String
    ((Ascii (true, false, true, false, false, true, true, false)), (String
    ((Ascii (false, false, true, false, false, true, true, false)),
    EmptyString)))))))))))))))))))))))))))))))))))))))))))))))))))))))))))))))),
    (e1 parse_tls_handshake_msg_finished sx_hs)) :: (((String ((Ascii (false,
    false, false, false, true, true, true, false)), (String ((Ascii (true,
    false, false, false, false, true, true, false)), (String ((Ascii (false,
    true, false, false, true, true, true, false)), (String ((Ascii (true,
    true, false, false, true, true, true, false)), (String ((Ascii (true,
    false, true, false, false, true, true, false)), (String ((Ascii (true,
    true, true, true, true, false, true, false)), (String ((Ascii (false,
    false, true, false, true, true, true, false)), (String ((Ascii (false,
    false, true, true, false, true, true, false)), (String ((Ascii (true,
    true, false, false, true, true, true, false)), (String ((Ascii (true,
    true, true, true, true, false, true, false)), (String ((Ascii (false,
    false, false, true, false, true, true, false)), (String ((Ascii (true,
    false, false, false, false, true, true, false)), (String ((Ascii (false,
    true, true, true, false, true, true, false)), (String ((Ascii (false,
    false, true, false, false, true, true, false)), (String ((Ascii (true,
    true, false, false, true, true, true, false)), (String ((Ascii (false,
    false, false, true, false, true, true, false)), (String ((Ascii (true,
    false, false, false, false, true, true, false)), (String ((Ascii (true,
    true, false, true, false, true, true, false)), (String ((Ascii (true,
    false, true, false, false, true, true, false)), (String ((Ascii (true,
    true, true, true, true, false, true, false)), (String ((Ascii (true,
    false, true, true, false, true, true, false)), (String ((Ascii (true,
    true, false, false, true, true, true, false)), (String ((Ascii (true,
    true, true, false, false, true, true, false)), (String ((Ascii (true,
    true, true, true, true, false, true, false)), (String ((Ascii (true,
    true, false, false, false, true, true, false)), (String ((Ascii (true,
    false, true, false, false, true, true, false)), (String ((Ascii (false,
    true, false, false, true, true, true, false)), (String ((Ascii (false,
    false, true, false, true, true, true, false)), (String ((Ascii (true,
    false, false, true, false, true, true, false)), (String ((Ascii (false,
    true, true, false, false, true, true, false)), (String ((Ascii (true,
    false, false, true, false, true, true, false)), (String ((Ascii (true,
    true, false, false, false, true, true, false)), (String ((Ascii (true,
    false, false, false, false, true, true, false)), (String ((Ascii (false,
    false, true, false, true, true, true, false)), (String ((Ascii (true,
    false, true, false, false, true, true, false)), (String ((Ascii (true,
    true, false, false, true, true, true, false)), (String ((Ascii (false,
    false, true, false, true, true, true, false)), (String ((Ascii (true,
    false, false, false, false, true, true, false)), (String ((Ascii (false,
    false, true, false, true, true, true, false)), (String ((Ascii (true,
    false, true, false, true, true, true, false)), (String ((Ascii (true,
    true, false, false, true, true, true, false)),
    EmptyString)))))))))))))))))))))))))))))))))))))))))))))))))))))))))))))))))))))))))))))))))),
    (e parse_tls_handshake_msg_certificatestatus sx_hs)) :: (((String ((Ascii
    (false, false, false, false, true, true, true, false)), (String ((Ascii
    (true, false, false, false, false, true, true, false)), (String ((Ascii
    (false, true, false, false, true, true, true, false)), (String ((Ascii
    (true, true, false, false, true, true, true, false)), (String ((Ascii
    (true, false, true, false, false, true, true, false)), (String ((Ascii
    (true, true, true, true, true, false, true, false)), (String ((Ascii
    (false, false, true, false, true, true, true, false)), (String ((Ascii
    (false, false, true, true, false, true, true, false)), (String ((Ascii
    (true, true, false, false, true, true, true, false)), (String ((Ascii
    (true, true, true, true, true, false, true, false)), (String ((Ascii
    (false, false, false, true, false, true, true, false)), (String ((Ascii
    (true, false, false, false, false, true, true, false)), (String ((Ascii
    (false, true, true, true, false, true, true, false)), (String ((Ascii
    (false, false, true, false, false, true, true, false)), (String ((Ascii
    (true, true, false, false, true, true, true, false)), (String ((Ascii
    (false, false, false, true, false, true, true, false)), (String ((Ascii
    (true, false, false, false, false, true, true, false)), (String ((Ascii
    (true, true, false, true, false, true, true, false)), (String ((Ascii
    (true, false, true, false, false, true, true, false)), (String ((Ascii
    (true, true, true, true, true, false, true, false)), (String ((Ascii
    (true, false, true, true, false, true, true, false)), (String ((Ascii
    (true, true, false, false, true, true, true, false)), (String ((Ascii
    (true, true, true, false, false, true, true, false)), (String ((Ascii
    (true, true, true, true, true, false, true, false)), (String ((Ascii
    (false, true, true, true, false, true, true, false)), (String ((Ascii
    (true, false, true, false, false, true, true, false)), (String ((Ascii
    (false, false, false, true, true, true, true, false)), (String ((Ascii
    (false, false, true, false, true, true, true, false)), (String ((Ascii
    (true, true, true, true, true, false, true, false)), (String ((Ascii
    (false, false, false, false, true, true, true, false)), (String ((Ascii
    (false, true, false, false, true, true, true, false)), (String ((Ascii
    (true, true, true, true, false, true, true, false)), (String ((Ascii
    (false, false, true, false, true, true, true, false)), (String ((Ascii
    (true, true, true, true, false, true, true, false)), (String ((Ascii
    (true, true, false, false, false, true, true, false)), (String ((Ascii
    (true, true, true, true, false, true, true, false)), (String ((Ascii
    (false, false, true, true, false, true, true, false)),
    EmptyString)))))))))))))))))))))))))))))))))))))))))))))))))))))))))))))))))))))))))),
    (e parse_tls_handshake_msg_next_protocol sx_hs)) :: (((String ((Ascii
    (false, false, false, false, true, true, true, false)), (String ((Ascii
    (true, false, false, false, false, true, true, false)), (String ((Ascii
    (false, true, false, false, true, true, true, false)), (String ((Ascii
    (true, true, false, false, true, true, true, false)), (String ((Ascii
    (true, false, true, false, false, true, true, false)), (String ((Ascii
    (true, true, true, true, true, false, true, false)), (String ((Ascii
    (false, false, true, false, true, true, true, false)), (String ((Ascii
    (false, false, true, true, false, true, true, false)), (String ((Ascii
    (true, true, false, false, true, true, true, false)), (String ((Ascii
    (true, true, true, true, true, false, true, false)), (String ((Ascii
    (false, false, false, true, false, true, true, false)), (String ((Ascii
    (true, false, false, false, false, true, true, false)), (String ((Ascii
    (false, true, true, true, false, true, true, false)), (String ((Ascii
    (false, false, true, false, false, true, true, false)), (String ((Ascii
    (true, true, false, false, true, true, true, false)), (String ((Ascii
    (false, false, false, true, false, true, true, false)), (String ((Ascii
    (true, false, false, false, false, true, true, false)), (String ((Ascii
    (true, true, false, true, false, true, true, false)), (String ((Ascii
    (true, false, true, false, false, true, true, false)), (String ((Ascii
    (true, true, true, true, true, false, true, false)), (String ((Ascii
    (true, false, true, true, false, true, true, false)), (String ((Ascii
    (true, true, false, false, true, true, true, false)), (String ((Ascii
    (true, true, true, false, false, true, true, false)), (String ((Ascii
    (true, true, true, true, true, false, true, false)), (String ((Ascii
    (true, true, false, true, false, true, true, false)), (String ((Ascii
    (true, false, true, false, false, true, true, false)), (String ((Ascii
    (true, false, false, true, true, true, true, false)), (String ((Ascii
    (true, true, true, true, true, false, true, false)), (String ((Ascii
    (true, false, true, false, true, true, true, false)), (String ((Ascii
    (false, false, false, false, true, true, true, false)), (String ((Ascii
    (false, false, true, false, false, true, true, false)), (String ((Ascii
    (true, false, false, false, false, true, true, false)), (String ((Ascii
    (false, false, true, false, true, true, true, false)), (String ((Ascii
    (true, false, true, false, false, true, true, false)),
    EmptyString)))))))))))))))))))))))))))))))))))))))))))))))))))))))))))))))))))),
    (e parse_tls_handshake_msg_key_update sx_hs)) :: [])))))))))))))))))))))))))))))))

(** val e3d : (dTLSRecordHeader -> 'a1 p) -> ('a1 -> sx) -> entry_fn **)

let e3d p0 f a b =
  show_res f
    (run
      (p0 { d_type = (arg a O); d_version = (arg a (S O)); d_epoch =
        (arg a (S (S O))); d_seq = (arg a (S (S (S O)))); d_len =
        (arg a (S (S (S (S O))))) }) { off = N0; bytes = b })

(** val eb : (bool -> 'a1 p) -> ('a1 -> sx) -> entry_fn **)

let eb p0 f a b =
  show_res f (run (p0 (negb (N.eqb (arg a O) N0))) { off = N0; bytes = b })

(** val entries_ext : (string * entry_fn) list **)

let entries_ext =
  ((String ((Ascii (false, false, false, false, true, true, true, false)),
    (String ((Ascii (true, false, false, false, false, true, true, false)),
    (String ((Ascii (false, true, false, false, true, true, true, false)),
    (String ((Ascii (true, true, false, false, true, true, true, false)),
    (String ((Ascii (true, false, true, false, false, true, true, false)),
    (String ((Ascii (true, true, true, true, true, false, true, false)),
    (String ((Ascii (false, false, true, false, true, true, true, false)),
    (String ((Ascii (false, false, true, true, false, true, true, false)),
    (String ((Ascii (true, true, false, false, true, true, true, false)),
    (String ((Ascii (true, true, true, true, true, false, true, false)),
    (String ((Ascii (true, false, true, false, false, true, true, false)),
    (String ((Ascii (false, false, false, true, true, true, true, false)),
    (String ((Ascii (false, false, true, false, true, true, true, false)),
    (String ((Ascii (true, false, true, false, false, true, true, false)),
    (String ((Ascii (false, true, true, true, false, true, true, false)),
    (String ((Ascii (true, true, false, false, true, true, true, false)),
    (String ((Ascii (true, false, false, true, false, true, true, false)),
    (String ((Ascii (true, true, true, true, false, true, true, false)),
    (String ((Ascii (false, true, true, true, false, true, true, false)),
    EmptyString)))))))))))))))))))))))))))))))))))))),
    (e parse_tls_extension sx_ext)) :: (((String ((Ascii (false, false,
    false, false, true, true, true, false)), (String ((Ascii (true, false,
    false, false, false, true, true, false)), (String ((Ascii (false, true,
    false, false, true, true, true, false)), (String ((Ascii (true, true,
    false, false, true, true, true, false)), (String ((Ascii (true, false,
    true, false, false, true, true, false)), (String ((Ascii (true, true,
    true, true, true, false, true, false)), (String ((Ascii (false, false,
    true, false, true, true, true, false)), (String ((Ascii (false, false,
    true, true, false, true, true, false)), (String ((Ascii (true, true,
    false, false, true, true, true, false)), (String ((Ascii (true, true,
    true, true, true, false, true, false)), (String ((Ascii (true, true,
    false, false, false, true, true, false)), (String ((Ascii (false, false,
    true, true, false, true, true, false)), (String ((Ascii (true, false,
    false, true, false, true, true, false)), (String ((Ascii (true, false,
    true, false, false, true, true, false)), (String ((Ascii (false, true,
    true, true, false, true, true, false)), (String ((Ascii (false, false,
    true, false, true, true, true, false)), (String ((Ascii (true, true,
    true, true, true, false, true, false)), (String ((Ascii (false, false,
    false, true, false, true, true, false)), (String ((Ascii (true, false,
    true, false, false, true, true, false)), (String ((Ascii (false, false,
    true, true, false, true, true, false)), (String ((Ascii (false, false,
    true, true, false, true, true, false)), (String ((Ascii (true, true,
    true, true, false, true, true, false)), (String ((Ascii (true, true,
    true, true, true, false, true, false)), (String ((Ascii (true, false,
    true, false, false, true, true, false)), (String ((Ascii (false, false,
    false, true, true, true, true, false)), (String ((Ascii (false, false,
    true, false, true, true, true, false)), (String ((Ascii (true, false,
    true, false, false, true, true, false)), (String ((Ascii (false, true,
    true, true, false, true, true, false)), (String ((Ascii (true, true,
    false, false, true, true, true, false)), (String ((Ascii (true, false,
    false, true, false, true, true, false)), (String ((Ascii (true, true,
    true, true, false, true, true, false)), (String ((Ascii (false, true,
    true, true, false, true, true, false)),
    EmptyString)))))))))))))))))))))))))))))))))))))))))))))))))))))))))))))))),
    (e parse_tls_client_hello_extension sx_ext)) :: (((String ((Ascii (false,
    false, false, false, true, true, true, false)), (String ((Ascii (true,
    false, false, false, false, true, true, false)), (String ((Ascii (false,
    true, false, false, true, true, true, false)), (String ((Ascii (true,
    true, false, false, true, true, true, false)), (String ((Ascii (true,
    false, true, false, false, true, true, false)), (String ((Ascii (true,
    true, true, true, true, false, true, false)), (String ((Ascii (false,
    false, true, false, true, true, true, false)), (String ((Ascii (false,
    false, true, true, false, true, true, false)), (String ((Ascii (true,
    true, false, false, true, true, true, false)), (String ((Ascii (true,
    true, true, true, true, false, true, false)), (String ((Ascii (true,
    true, false, false, true, true, true, false)), (String ((Ascii (true,
    false, true, false, false, true, true, false)), (String ((Ascii (false,
    true, false, false, true, true, true, false)), (String ((Ascii (false,
    true, true, false, true, true, true, false)), (String ((Ascii (true,
    false, true, false, false, true, true, false)), (String ((Ascii (false,
    true, false, false, true, true, true, false)), (String ((Ascii (true,
    true, true, true, true, false, true, false)), (String ((Ascii (false,
    false, false, true, false, true, true, false)), (String ((Ascii (true,
    false, true, false, false, true, true, false)), (String ((Ascii (false,
    false, true, true, false, true, true, false)), (String ((Ascii (false,
    false, true, true, false, true, true, false)), (String ((Ascii (true,
    true, true, true, false, true, true, false)), (String ((Ascii (true,
    true, true, true, true, false, true, false)), (String ((Ascii (true,
    false, true, false, false, true, true, false)), (String ((Ascii (false,
    false, false, true, true, true, true, false)), (String ((Ascii (false,
    false, true, false, true, true, true, false)), (String ((Ascii (true,
    false, true, false, false, true, true, false)), (String ((Ascii (false,
    true, true, true, false, true, true, false)), (String ((Ascii (true,
    true, false, false, true, true, true, false)), (String ((Ascii (true,
    false, false, true, false, true, true, false)), (String ((Ascii (true,
    true, true, true, false, true, true, false)), (String ((Ascii (false,
    true, true, true, false, true, true, false)),
    EmptyString)))))))))))))))))))))))))))))))))))))))))))))))))))))))))))))))),
    (e parse_tls_server_hello_extension sx_ext)) :: (((String ((Ascii (false,
    false, false, false, true, true, true, false)), (String ((Ascii (true,
    false, false, false, false, true, true, false)), (String ((Ascii (false,
    true, false, false, true, true, true, false)), (String ((Ascii (true,
    true, false, false, true, true, true, false)), (String ((Ascii (true,
    false, true, false, false, true, true, false)), (String ((Ascii (true,
    true, true, true, true, false, true, false)), (String ((Ascii (false,
    false, true, false, true, true, true, false)), (String ((Ascii (false,
    false, true, true, false, true, true, false)), (String ((Ascii (true,
    true, false, false, true, true, true, false)), (String ((Ascii (true,
    true, true, true, true, false, true, false)), (String ((Ascii (true,
    false, true, false, false, true, true, false)), (String ((Ascii (false,
    false, false, true, true, true, true, false)), (String ((Ascii (false,
    false, true, false, true, true, true, false)), (String ((Ascii (true,
    false, true, false, false, true, true, false)), (String ((Ascii (false,
    true, true, true, false, true, true, false)), (String ((Ascii (true,
    true, false, false, true, true, true, false)), (String ((Ascii (true,
    false, false, true, false, true, true, false)), (String ((Ascii (true,
    true, true, true, false, true, true, false)), (String ((Ascii (false,
    true, true, true, false, true, true, false)), (String ((Ascii (true,
    true, false, false, true, true, true, false)),
    EmptyString)))))))))))))))))))))))))))))))))))))))),
    (e parse_tls_extensions (slist sx_ext))) :: (((String ((Ascii (false,
    false, false, false, true, true, true, false)), (String ((Ascii (true,
    false, false, false, false, true, true, false)), (String ((Ascii (false,
    true, false, false, true, true, true, false)), (String ((Ascii (true,
    true, false, false, true, true, true, false)), (String ((Ascii (true,
    false, true, false, false, true, true, false)), (String ((Ascii (true,
    true, true, true, true, false, true, false)), (String ((Ascii (false,
    false, true, false, true, true, true, false)), (String ((Ascii (false,
    false, true, true, false, true, true, false)), (String ((Ascii (true,
    true, false, false, true, true, true, false)), (String ((Ascii (true,
    true, true, true, true, false, true, false)), (String ((Ascii (true,
    true, false, false, false, true, true, false)), (String ((Ascii (false,
    false, true, true, false, true, true, false)), (String ((Ascii (true,
    false, false, true, false, true, true, false)), (String ((Ascii (true,
    false, true, false, false, true, true, false)), (String ((Ascii (false,
    true, true, true, false, true, true, false)), (String ((Ascii (false,
    false, true, false, true, true, true, false)), (String ((Ascii (true,
    true, true, true, true, false, true, false)), (String ((Ascii (false,
    false, false, true, false, true, true, false)), (String ((Ascii (true,
    false, true, false, false, true, true, false)), (String ((Ascii (false,
    false, true, true, false, true, true, false)), (String ((Ascii (false,
    false, true, true, false, true, true, false)), (String ((Ascii (true,
    true, true, true, false, true, true, false)), (String ((Ascii (true,
    true, true, true, true, false, true, false)), (String ((Ascii (true,
    false, true, false, false, true, true, false)), (String ((Ascii (false,
    false, false, true, true, true, true, false)), (String ((Ascii (false,
    false, true, false, true, true, true, false)), (String ((Ascii (true,
    false, true, false, false, true, true, false)), (String ((Ascii (false,
    true, true, true, false, true, true, false)), (String ((Ascii (true,
    true, false, false, true, true, true, false)), (String ((Ascii (true,
    false, false, true, false, true, true, false)), (String ((Ascii (true,
    true, true, true, false, true, true, false)), (String ((Ascii (false,
    true, true, true, false, true, true, false)), (String ((Ascii (true,
    true, false, false, true, true, true, false)),
    EmptyString)))))))))))))))))))))))))))))))))))))))))))))))))))))))))))))))))),
    (e parse_tls_client_hello_extensions (slist sx_ext))) :: (((String
    ((Ascii (false, false, false, false, true, true, true, false)), (String
    ((Ascii (true, false, false, false, false, true, true, false)), (String
    ((Ascii (false, true, false, false, true, true, true, false)), (String
    ((Ascii (true, true, false, false, true, true, true, false)), (String
    ((Ascii (true, false, true, false, false, true, true, false)), (String
    ((Ascii (true, true, true, true, true, false, true, false)), (String
    ((Ascii (false, false, true, false, true, true, true, false)), (String
    ((Ascii (false, false, true, true, false, true, true, false)), (String
    ((Ascii (true, true, false, false, true, true, true, false)), (String
    ((Ascii (true, true, true, true, true, false, true, false)), (String
    ((Ascii (true, true, false, false, true, true, true, false)), (String
    ((Ascii (true, false, true, false, false, true, true, false)), (String
    ((Ascii (false, true, false, false, true, true, true, false)), (String
    ((Ascii (false, true, true, false, true, true, true, false)), (String
    ((Ascii (true, false, true, false, false, true, true, false)), (String
    ((Ascii (false, true, false, false, true, true, true, false)), (String
    ((Ascii (true, true, true, true, true, false, true, false)), (String
    ((Ascii (false, false, false, true, false, true, true, false)), (String
    ((Ascii (true, false, true, false, false, true, true, false)), (String
    ((Ascii (false, false, true, true, false, true, true, false)), (String
    ((Ascii (false, false, true, true, false, true, true, false)), (String
    ((Ascii (true, true, true, true, false, true, true, false)), (String
    ((Ascii (true, true, true, true, true, false, true, false)), (String
    ((Ascii (true, false, true, false, false, true, true, false)), (String
    ((Ascii (false, false, false, true, true, true, true, false)), (String
    ((Ascii (false, false, true, false, true, true, true, false)), (String
    ((Ascii (true, false, true, false, false, true, true, false)), (String
    ((Ascii (false, true, true, true, false, true, true, false)), (String
    ((Ascii (true, true, false, false, true, true, true, false)), (String
    ((Ascii (true, false, false, true, false, true, true, false)), (String
    ((Ascii (true, true, true, true, false, true, true, false)), (String
    ((Ascii (false, true, true, true, false, true, true, false)), (String
    ((Ascii (true, true, false, false, true, true, true, false)),
    EmptyString)))))))))))))))))))))))))))))))))))))))))))))))))))))))))))))))))),
    (e parse_tls_server_hello_extensions (slist sx_ext))) :: (((String
    ((Ascii (false, false, false, false, true, true, true, false)), (String
    ((Ascii (true, false, false, false, false, true, true, false)), (String
    ((Ascii (false, true, false, false, true, true, true, false)), (String
    ((Ascii (true, true, false, false, true, true, true, false)), (String
    ((Ascii (true, false, true, false, false, true, true, false)), (String
    ((Ascii (true, true, true, true, true, false, true, false)), (String
    ((Ascii (false, false, true, false, true, true, true, false)), (String
    ((Ascii (false, false, true, true, false, true, true, false)), (String
    ((Ascii (true, true, false, false, true, true, true, false)), (String
    ((Ascii (true, true, true, true, true, false, true, false)), (String
    ((Ascii (true, false, true, false, false, true, true, false)), (String
    ((Ascii (false, false, false, true, true, true, true, false)), (String
    ((Ascii (false, false, true, false, true, true, true, false)), (String
    ((Ascii (true, false, true, false, false, true, true, false)), (String
    ((Ascii (false, true, true, true, false, true, true, false)), (String
    ((Ascii (true, true, false, false, true, true, true, false)), (String
    ((Ascii (true, false, false, true, false, true, true, false)), (String
    ((Ascii (true, true, true, true, false, true, true, false)), (String
    ((Ascii (false, true, true, true, false, true, true, false)), (String
    ((Ascii (true, true, true, true, true, false, true, false)), (String
    ((Ascii (true, false, true, false, true, true, true, false)), (String
    ((Ascii (false, true, true, true, false, true, true, false)), (String
    ((Ascii (true, true, false, true, false, true, true, false)), (String
    ((Ascii (false, true, true, true, false, true, true, false)), (String
    ((Ascii (true, true, true, true, false, true, true, false)), (String
    ((Ascii (true, true, true, false, true, true, true, false)), (String
    ((Ascii (false, true, true, true, false, true, true, false)),
    EmptyString)))))))))))))))))))))))))))))))))))))))))))))))))))))),
    (e parse_tls_extension_unknown sx_ext)) :: (((String ((Ascii (false,
    false, false, false, true, true, true, false)), (String ((Ascii (true,
    false, false, false, false, true, true, false)), (String ((Ascii (false,
    true, false, false, true, true, true, false)), (String ((Ascii (true,
    true, false, false, true, true, true, false)), (String ((Ascii (true,
    false, true, false, false, true, true, false)), (String ((Ascii (true,
    true, true, true, true, false, true, false)), (String ((Ascii (false,
    false, true, false, true, true, true, false)), (String ((Ascii (false,
    false, true, true, false, true, true, false)), (String ((Ascii (true,
    true, false, false, true, true, true, false)), (String ((Ascii (true,
    true, true, true, true, false, true, false)), (String ((Ascii (true,
    false, true, false, false, true, true, false)), (String ((Ascii (false,
    false, false, true, true, true, true, false)), (String ((Ascii (false,
    false, true, false, true, true, true, false)), (String ((Ascii (true,
    false, true, false, false, true, true, false)), (String ((Ascii (false,
    true, true, true, false, true, true, false)), (String ((Ascii (true,
    true, false, false, true, true, true, false)), (String ((Ascii (true,
    false, false, true, false, true, true, false)), (String ((Ascii (true,
    true, true, true, false, true, true, false)), (String ((Ascii (false,
    true, true, true, false, true, true, false)), (String ((Ascii (true,
    true, true, true, true, false, true, false)), (String ((Ascii (true,
    true, false, false, true, true, true, false)), (String ((Ascii (false,
    true, true, true, false, true, true, false)), (String ((Ascii (true,
    false, false, true, false, true, true, false)), (String ((Ascii (true,
    true, true, true, true, false, true, false)), (String ((Ascii (false,
    false, false, true, false, true, true, false)), (String ((Ascii (true,
    true, true, true, false, true, true, false)), (String ((Ascii (true,
    true, false, false, true, true, true, false)), (String ((Ascii (false,
    false, true, false, true, true, true, false)), (String ((Ascii (false,
    true, true, true, false, true, true, false)), (String ((Ascii (true,
    false, false, false, false, true, true, false)), (String ((Ascii (true,
    false, true, true, false, true, true, false)), (String ((Ascii (true,
    false, true, false, false, true, true, false)),
    EmptyString)))))))))))))))))))))))))))))))))))))))))))))))))))))))))))))))),
    (e parse_tls_extension_sni_hostname sx_pair_ns)) :: (((String ((Ascii
    (false, false, false, false, true, true, true, false)), (String ((Ascii
    (true, false, false, false, false, true, true, false)), (String ((Ascii
    (false, true, false, false, true, true, true, false)), (String ((Ascii
    (true, true, false, false, true, true, true, false)), (String ((Ascii
    (true, false, true, false, false, true, true, false)), (String ((Ascii
    (true, true, true, true, true, false, true, false)), (String ((Ascii
    (false, false, true, false, true, true, true, false)), (String ((Ascii
    (false, false, true, true, false, true, true, false)), (String ((Ascii
    (true, true, false, false, true, true, true, false)), (String ((Ascii
    (true, true, true, true, true, false, true, false)), (String ((Ascii
    (true, false, true, false, false, true, true, false)), (String ((Ascii
    (false, false, false, true, true, true, true, false)), (String ((Ascii
    (false, false, true, false, true, true, true, false)), (String ((Ascii
    (true, false, true, false, false, true, true, false)), (String ((Ascii
    (false, true, true, true, false, true, true, false)), (String ((Ascii
    (true, true, false, false, true, true, true, false)), (String ((Ascii
    (true, false, false, true, false, true, true, false)), (String ((Ascii
    (true, true, true, true, false, true, true, false)), (String ((Ascii
    (false, true, true, true, false, true, true, false)), (String ((Ascii
    (true, true, true, true, true, false, true, false)), (String ((Ascii
    (true, true, false, false, true, true, true, false)), (String ((Ascii
    (false, true, true, true, false, true, true, false)), (String ((Ascii
    (true, false, false, true, false, true, true, false)), (String ((Ascii
    (true, true, true, true, true, false, true, false)), (String ((Ascii
    (true, true, false, false, false, true, true, false)), (String ((Ascii
    (true, true, true, true, false, true, true, false)), (String ((Ascii
    (false, true, true, true, false, true, true, false)), (String ((Ascii
    (false, false, true, false, true, true, true, false)), (String ((Ascii
    (true, false, true, false, false, true, true, false)), (String ((Ascii
    (false, true, true, true, false, true, true, false)), (String ((Ascii
    (false, false, true, false, true, true, true, false)),
    EmptyString)))))))))))))))))))))))))))))))))))))))))))))))))))))))))))))),
    (e parse_tls_extension_sni_content sx_ext)) :: (((String ((Ascii (false,
    false, false, false, true, true, true, false)), (String ((Ascii (true,
    false, false, false, false, true, true, false)), (String ((Ascii (false,
    true, false, false, true, true, true, false)), (String ((Ascii (true,
    true, false, false, true, true, true, false)), (String ((Ascii (true,
    false, true, false, false, true, true, false)), (String ((Ascii (true,
    true, true, true, true, false, true, false)), (String ((Ascii (false,
    false, true, false, true, true, true, false)), (String ((Ascii (false,
    false, true, true, false, true, true, false)), (String ((Ascii (true,
    true, false, false, true, true, true, false)), (String ((Ascii (true,
    true, true, true, true, false, true, false)), (String ((Ascii (true,
    false, true, false, false, true, true, false)), (String ((Ascii (false,
    false, false, true, true, true, true, false)), (String ((Ascii (false,
    false, true, false, true, true, true, false)), (String ((Ascii (true,
    false, true, false, false, true, true, false)), (String ((Ascii (false,
    true, true, true, false, true, true, false)), (String ((Ascii (true,
    true, false, false, true, true, true, false)), (String ((Ascii (true,
    false, false, true, false, true, true, false)), (String ((Ascii (true,
    true, true, true, false, true, true, false)), (String ((Ascii (false,
    true, true, true, false, true, true, false)), (String ((Ascii (true,
    true, true, true, true, false, true, false)), (String ((Ascii (true,
    false, true, true, false, true, true, false)), (String ((Ascii (true,
    false, false, false, false, true, true, false)), (String ((Ascii (false,
    false, false, true, true, true, true, false)), (String ((Ascii (true,
    true, true, true, true, false, true, false)), (String ((Ascii (false,
    true, true, false, false, true, true, false)), (String ((Ascii (false,
    true, false, false, true, true, true, false)), (String ((Ascii (true,
    false, false, false, false, true, true, false)), (String ((Ascii (true,
    true, true, false, false, true, true, false)), (String ((Ascii (true,
    false, true, true, false, true, true, false)), (String ((Ascii (true,
    false, true, false, false, true, true, false)), (String ((Ascii (false,
    true, true, true, false, true, true, false)), (String ((Ascii (false,
    false, true, false, true, true, true, false)), (String ((Ascii (true,
    true, true, true, true, false, true, false)), (String ((Ascii (false,
    false, true, true, false, true, true, false)), (String ((Ascii (true,
    false, true, false, false, true, true, false)), (String ((Ascii (false,
    true, true, true, false, true, true, false)), (String ((Ascii (true,
    true, true, false, false, true, true, false)), (String ((Ascii (false,
    false, true, false, true, true, true, false)), (String ((Ascii (false,
    false, false, true, false, true, true, false)), (String ((Ascii (true,
    true, true, true, true, false, true, false)), (String ((Ascii (true,
    true, false, false, false, true, true, false)), (String ((Ascii (true,
    true, true, true, false, true, true, false)), (String ((Ascii (false,
    true, true, true, false, true, true, false)), (String ((Ascii (false,
    false, true, false, true, true, true, false)), (String ((Ascii (true,
    false, true, false, false, true, true, false)), (String ((Ascii (false,
    true, true, true, false, true, true, false)), (String ((Ascii (false,
    false, true, false, true, true, true, false)),
    EmptyString)))))))))))))))))))))))))))))))))))))))))))))))))))))))))))))))))))))))))))))))))))))))))))))),
    (e parse_tls_extension_max_fragment_length_content sx_ext)) :: (((String
    ((Ascii (false, false, false, false, true, true, true, false)), (String
    ((Ascii (true, false, false, false, false, true, true, false)), (String
    ((Ascii (false, true, false, false, true, true, true, false)), (String
    ((Ascii (true, true, false, false, true, true, true, false)), (String
    ((Ascii (true, false, true, false, false, true, true, false)), (String
    ((Ascii (true, true, true, true, true, false, true, false)), (String
    ((Ascii (false, false, true, false, true, true, true, false)), (String
    ((Ascii (false, false, true, true, false, true, true, false)), (String
    ((Ascii (true, true, false, false, true, true, true, false)), (String
    ((Ascii (true, true, true, true, true, false, true, false)), (String
    ((Ascii (true, false, true, false, false, true, true, false)), (String
    ((Ascii (false, false, false, true, true, true, true, false)), (String
    ((Ascii (false, false, true, false, true, true, true, false)), (String
    ((Ascii (true, false, true, false, false, true, true, false)), (String
    ((Ascii (false, true, true, true, false, true, true, false)), (String
    ((Ascii (true, true, false, false, true, true, true, false)), (String
    ((Ascii (true, false, false, true, false, true, true, false)), (String
    ((Ascii (true, true, true, true, false, true, true, false)), (String
    ((Ascii (false, true, true, true, false, true, true, false)), (String
    ((Ascii (true, true, true, true, true, false, true, false)), (String
    ((Ascii (true, false, true, false, false, true, true, false)), (String
    ((Ascii (false, false, true, true, false, true, true, false)), (String
    ((Ascii (false, false, true, true, false, true, true, false)), (String
    ((Ascii (true, false, false, true, false, true, true, false)), (String
    ((Ascii (false, false, false, false, true, true, true, false)), (String
    ((Ascii (false, false, true, false, true, true, true, false)), (String
    ((Ascii (true, false, false, true, false, true, true, false)), (String
    ((Ascii (true, true, false, false, false, true, true, false)), (String
    ((Ascii (true, true, true, true, true, false, true, false)), (String
    ((Ascii (true, true, false, false, false, true, true, false)), (String
    ((Ascii (true, false, true, false, true, true, true, false)), (String
    ((Ascii (false, true, false, false, true, true, true, false)), (String
    ((Ascii (false, true, true, false, true, true, true, false)), (String
    ((Ascii (true, false, true, false, false, true, true, false)), (String
    ((Ascii (true, true, false, false, true, true, true, false)), (String
    ((Ascii (true, true, true, true, true, false, true, false)), (String
    ((Ascii (true, true, false, false, false, true, true, false)), (String
    ((Ascii (true, true, true, true, false, true, true, false)), (String
    ((Ascii (false, true, true, true, false, true, true, false)), (String
    ((Ascii (false, false, true, false, true, true, true, false)), (String
    ((Ascii (true, false, true, false, false, true, true, false)), (String
    ((Ascii (false, true, true, true, false, true, true, false)), (String
    ((Ascii (false, false, true, false, true, true, true, false)),
    EmptyString)))))))))))))))))))))))))))))))))))))))))))))))))))))))))))))))))))))))))))))))))))))),
    (e parse_tls_extension_elliptic_curves_content sx_ext)) :: (((String
    ((Ascii (false, false, false, false, true, true, true, false)), (String
    ((Ascii (true, false, false, false, false, true, true, false)), (String
    ((Ascii (false, true, false, false, true, true, true, false)), (String
    ((Ascii (true, true, false, false, true, true, true, false)), (String
    ((Ascii (true, false, true, false, false, true, true, false)), (String
    ((Ascii (true, true, true, true, true, false, true, false)), (String
    ((Ascii (false, false, true, false, true, true, true, false)), (String
    ((Ascii (false, false, true, true, false, true, true, false)), (String
    ((Ascii (true, true, false, false, true, true, true, false)), (String
    ((Ascii (true, true, true, true, true, false, true, false)), (String
    ((Ascii (true, false, true, false, false, true, true, false)), (String
    ((Ascii (false, false, false, true, true, true, true, false)), (String
    ((Ascii (false, false, true, false, true, true, true, false)), (String
    ((Ascii (true, false, true, false, false, true, true, false)), (String
    ((Ascii (false, true, true, true, false, true, true, false)), (String
    ((Ascii (true, true, false, false, true, true, true, false)), (String
    ((Ascii (true, false, false, true, false, true, true, false)), (String
    ((Ascii (true, true, true, true, false, true, true, false)), (String
    ((Ascii (false, true, true, true, false, true, true, false)), (String
    ((Ascii (true, true, true, true, true, false, true, false)), (String
    ((Ascii (true, false, true, false, false, true, true, false)), (String
    ((Ascii (true, true, false, false, false, true, true, false)), (String
    ((Ascii (true, true, true, true, true, false, true, false)), (String
    ((Ascii (false, false, false, false, true, true, true, false)), (String
    ((Ascii (true, true, true, true, false, true, true, false)), (String
    ((Ascii (true, false, false, true, false, true, true, false)), (String
    ((Ascii (false, true, true, true, false, true, true, false)), (String
    ((Ascii (false, false, true, false, true, true, true, false)), (String
    ((Ascii (true, true, true, true, true, false, true, false)), (String
    ((Ascii (false, true, true, false, false, true, true, false)), (String
    ((Ascii (true, true, true, true, false, true, true, false)), (String
    ((Ascii (false, true, false, false, true, true, true, false)), (String
    ((Ascii (true, false, true, true, false, true, true, false)), (String
    ((Ascii (true, false, false, false, false, true, true, false)), (String
    ((Ascii (false, false, true, false, true, true, true, false)), (String
    ((Ascii (true, true, false, false, true, true, true, false)), (String
    ((Ascii (true, true, true, true, true, false, true, false)), (String
    ((Ascii (true, true, false, false, false, true, true, false)), (String
    ((Ascii (true, true, true, true, false, true, true, false)), (String
    ((Ascii (false, true, true, true, false, true, true, false)), (String
    ((Ascii (false, false, true, false, true, true, true, false)), (String
    ((Ascii (true, false, true, false, false, true, true, false)), (String
    ((Ascii (false, true, true, true, false, true, true, false)), (String
    ((Ascii (false, false, true, false, true, true, true, false)),
    EmptyString)))))))))))))))))))))))))))))))))))))))))))))))))))))))))))))))))))))))))))))))))))))))),
    (e parse_tls_extension_ec_point_formats_content sx_ext)) :: (((String
    ((Ascii (false, false, false, false, true, true, true, false)), (String
    ((Ascii (true, false, false, false, false, true, true, false)), (String
    ((Ascii (false, true, false, false, true, true, true, false)), (String
    ((Ascii (true, true, false, false, true, true, true, false)), (String
    ((Ascii (true, false, true, false, false, true, true, false)), (String
    ((Ascii (true, true, true, true, true, false, true, false)), (String
    ((Ascii (false, false, true, false, true, true, true, false)), (String
    ((Ascii (false, false, true, true, false, true, true, false)), (String
    ((Ascii (true, true, false, false, true, true, true, false)), (String
    ((Ascii (true, true, true, true, true, false, true, false)), (String
    ((Ascii (true, false, true, false, false, true, true, false)), (String
    ((Ascii (false, false, false, true, true, true, true, false)), (String
    ((Ascii (false, false, true, false, true, true, true, false)), (String
    ((Ascii (true, false, true, false, false, true, true, false)), (String
    ((Ascii (false, true, true, true, false, true, true, false)), (String
    ((Ascii (true, true, false, false, true, true, true, false)), (String
    ((Ascii (true, false, false, true, false, true, true, false)), (String
    ((Ascii (true, true, true, true, false, true, true, false)), (String
    ((Ascii (false, true, true, true, false, true, true, false)), (String
    ((Ascii (true, true, true, true, true, false, true, false)), (String
    ((Ascii (true, true, false, false, true, true, true, false)), (String
    ((Ascii (true, false, false, true, false, true, true, false)), (String
    ((Ascii (true, true, true, false, false, true, true, false)), (String
    ((Ascii (false, true, true, true, false, true, true, false)), (String
    ((Ascii (true, false, false, false, false, true, true, false)), (String
    ((Ascii (false, false, true, false, true, true, true, false)), (String
    ((Ascii (true, false, true, false, true, true, true, false)), (String
    ((Ascii (false, true, false, false, true, true, true, false)), (String
    ((Ascii (true, false, true, false, false, true, true, false)), (String
    ((Ascii (true, true, true, true, true, false, true, false)), (String
    ((Ascii (true, false, false, false, false, true, true, false)), (String
    ((Ascii (false, false, true, true, false, true, true, false)), (String
    ((Ascii (true, true, true, false, false, true, true, false)), (String
    ((Ascii (true, true, true, true, false, true, true, false)), (String
    ((Ascii (false, true, false, false, true, true, true, false)), (String
    ((Ascii (true, false, false, true, false, true, true, false)), (String
    ((Ascii (false, false, true, false, true, true, true, false)), (String
    ((Ascii (false, false, false, true, false, true, true, false)), (String
    ((Ascii (true, false, true, true, false, true, true, false)), (String
    ((Ascii (true, true, false, false, true, true, true, false)), (String
    ((Ascii (true, true, true, true, true, false, true, false)), (String
    ((Ascii (true, true, false, false, false, true, true, false)), (String
    ((Ascii (true, true, true, true, false, true, true, false)), (String
    ((Ascii (false, true, true, true, false, true, true, false)), (String
    ((Ascii (false, false, true, false, true, true, true, false)), (String
    ((Ascii (true, false, true, false, false, true, true, false)), (String
    ((Ascii (false, true, true, true, false, true, true, false)), (String
    ((Ascii (false, false, true, false, true, true, true, false)),
    EmptyString)))))))))))))))))))))))))))))))))))))))))))))))))))))))))))))))))))))))))))))))))))))))))))))))),
    (e parse_tls_extension_signature_algorithms_content sx_ext)) :: (((String
    ((Ascii (false, false, false, false, true, true, true, false)), (String
    ((Ascii (true, false, false, false, false, true, true, false)), (String
    ((Ascii (false, true, false, false, true, true, true, false)), (String
    ((Ascii (true, true, false, false, true, true, true, false)), (String
    ((Ascii (true, false, true, false, false, true, true, false)), (String
    ((Ascii (true, true, true, true, true, false, true, false)), (String
    ((Ascii (false, false, true, false, true, true, true, false)), (String
    ((Ascii (false, false, true, true, false, true, true, false)), (String
    ((Ascii (true, true, false, false, true, true, true, false)), (String
    ((Ascii (true, true, true, true, true, false, true, false)), (String
    ((Ascii (true, false, true, false, false, true, true, false)), (String
    ((Ascii (false, false, false, true, true, true, true, false)), (String
    ((Ascii (false, false, true, false, true, true, true, false)), (String
    ((Ascii (true, false, true, false, false, true, true, false)), (String
    ((Ascii (false, true, true, true, false, true, true, false)), (String
    ((Ascii (true, true, false, false, true, true, true, false)), (String
    ((Ascii (true, false, false, true, false, true, true, false)), (String
    ((Ascii (true, true, true, true, false, true, true, false)), (String
    ((Ascii (false, true, true, true, false, true, true, false)), (String
    ((Ascii (true, true, true, true, true, false, true, false)), (String
    ((Ascii (false, false, false, true, false, true, true, false)), (String
    ((Ascii (true, false, true, false, false, true, true, false)), (String
    ((Ascii (true, false, false, false, false, true, true, false)), (String
    ((Ascii (false, true, false, false, true, true, true, false)), (String
    ((Ascii (false, false, true, false, true, true, true, false)), (String
    ((Ascii (false, true, false, false, false, true, true, false)), (String
    ((Ascii (true, false, true, false, false, true, true, false)), (String
    ((Ascii (true, false, false, false, false, true, true, false)), (String
    ((Ascii (false, false, true, false, true, true, true, false)), (String
    ((Ascii (true, true, true, true, true, false, true, false)), (String
    ((Ascii (true, true, false, false, false, true, true, false)), (String
    ((Ascii (true, true, true, true, false, true, true, false)), (String
    ((Ascii (false, true, true, true, false, true, true, false)), (String
    ((Ascii (false, false, true, false, true, true, true, false)), (String
    ((Ascii (true, false, true, false, false, true, true, false)), (String
    ((Ascii (false, true, true, true, false, true, true, false)), (String
    ((Ascii (false, false, true, false, true, true, true, false)),
    EmptyString)))))))))))))))))))))))))))))))))))))))))))))))))))))))))))))))))))))))))),
    (e parse_tls_extension_heartbeat_content sx_ext)) :: (((String ((Ascii
    (false, false, false, false, true, true, true, false)), (String ((Ascii
    (true, false, false, false, false, true, true, false)), (String ((Ascii
    (false, true, false, false, true, true, true, false)), (String ((Ascii
    (true, true, false, false, true, true, true, false)), (String ((Ascii
    (true, false, true, false, false, true, true, false)), (String ((Ascii
    (true, true, true, true, true, false, true, false)), (String ((Ascii
    (false, false, true, false, true, true, true, false)), (String ((Ascii
    (false, false, true, true, false, true, true, false)), (String ((Ascii
    (true, true, false, false, true, true, true, false)), (String ((Ascii
    (true, true, true, true, true, false, true, false)), (String ((Ascii
    (true, false, true, false, false, true, true, false)), (String ((Ascii
    (false, false, false, true, true, true, true, false)), (String ((Ascii
    (false, false, true, false, true, true, true, false)), (String ((Ascii
    (true, false, true, false, false, true, true, false)), (String ((Ascii
    (false, true, true, true, false, true, true, false)), (String ((Ascii
    (true, true, false, false, true, true, true, false)), (String ((Ascii
    (true, false, false, true, false, true, true, false)), (String ((Ascii
    (true, true, true, true, false, true, true, false)), (String ((Ascii
    (false, true, true, true, false, true, true, false)), (String ((Ascii
    (true, true, true, true, true, false, true, false)), (String ((Ascii
    (true, false, false, false, false, true, true, false)), (String ((Ascii
    (false, false, true, true, false, true, true, false)), (String ((Ascii
    (false, false, false, false, true, true, true, false)), (String ((Ascii
    (false, true, true, true, false, true, true, false)), (String ((Ascii
    (true, true, true, true, true, false, true, false)), (String ((Ascii
    (true, true, false, false, false, true, true, false)), (String ((Ascii
    (true, true, true, true, false, true, true, false)), (String ((Ascii
    (false, true, true, true, false, true, true, false)), (String ((Ascii
    (false, false, true, false, true, true, true, false)), (String ((Ascii
    (true, false, true, false, false, true, true, false)), (String ((Ascii
    (false, true, true, true, false, true, true, false)), (String ((Ascii
    (false, false, true, false, true, true, true, false)),
    EmptyString)))))))))))))))))))))))))))))))))))))))))))))))))))))))))))))))),
    (e parse_tls_extension_alpn_content sx_ext)) :: (((String ((Ascii (false,
    false, false, false, true, true, true, false)), (String ((Ascii (true,
    false, false, false, false, true, true, false)), (String ((Ascii (false,
    true, false, false, true, true, true, false)), (String ((Ascii (true,
    true, false, false, true, true, true, false)), (String ((Ascii (true,
    false, true, false, false, true, true, false)), (String ((Ascii (true,
    true, true, true, true, false, true, false)), (String ((Ascii (false,
    false, true, false, true, true, true, false)), (String ((Ascii (false,
    false, true, true, false, true, true, false)), (String ((Ascii (true,
    true, false, false, true, true, true, false)), (String ((Ascii (true,
    true, true, true, true, false, true, false)), (String ((Ascii (true,
    false, true, false, false, true, true, false)), (String ((Ascii (false,
    false, false, true, true, true, true, false)), (String ((Ascii (false,
    false, true, false, true, true, true, false)), (String ((Ascii (true,
    false, true, false, false, true, true, false)), (String ((Ascii (false,
    true, true, true, false, true, true, false)), (String ((Ascii (true,
    true, false, false, true, true, true, false)), (String ((Ascii (true,
    false, false, true, false, true, true, false)), (String ((Ascii (true,
    true, true, true, false, true, true, false)), (String ((Ascii (false,
    true, true, true, false, true, true, false)), (String ((Ascii (true,
    true, true, true, true, false, true, false)), (String ((Ascii (true,
    true, false, false, true, true, true, false)), (String ((Ascii (true,
    false, false, true, false, true, true, false)), (String ((Ascii (true,
    true, true, false, false, true, true, false)), (String ((Ascii (false,
    true, true, true, false, true, true, false)), (String ((Ascii (true,
    false, true, false, false, true, true, false)), (String ((Ascii (false,
    false, true, false, false, true, true, false)), (String ((Ascii (true,
    true, true, true, true, false, true, false)), (String ((Ascii (true,
    true, false, false, false, true, true, false)), (String ((Ascii (true,
    false, true, false, false, true, true, false)), (String ((Ascii (false,
    true, false, false, true, true, true, false)), (String ((Ascii (false,
    false, true, false, true, true, true, false)), (String ((Ascii (true,
    false, false, true, false, true, true, false)), (String ((Ascii (false,
    true, true, false, false, true, true, false)), (String ((Ascii (true,
    false, false, true, false, true, true, false)), (String ((Ascii (true,
    true, false, false, false, true, true, false)), (String ((Ascii (true,
    false, false, false, false, true, true, false)), (String ((Ascii (false,
    false, true, false, true, true, true, false)), (String ((Ascii (true,
    false, true, false, false, true, true, false)), (String ((Ascii (true,
    true, true, true, true, false, true, false)), (String ((Ascii (false,
    false, true, false, true, true, true, false)), (String ((Ascii (true,
    false, false, true, false, true, true, false)), (String ((Ascii (true,
    false, true, true, false, true, true, false)), (String ((Ascii (true,
    false, true, false, false, true, true, false)), (String ((Ascii (true,
    true, false, false, true, true, true, false)), (String ((Ascii (false,
    false, true, false, true, true, true, false)), (String ((Ascii (true,
    false, false, false, false, true, true, false)), (String ((Ascii (true,
    false, true, true, false, true, true, false)), (String ((Ascii (false,
    false, false, false, true, true, true, false)), (String ((Ascii (true,
    true, true, true, true, false, true, false)), (String ((Ascii (true,
    true, false, false, false, true, true, false)), (String ((Ascii (true,
    true, true, true, false, true, true, false)), (String ((Ascii (false,
    true, true, true, false, true, true, false)), (String ((Ascii (false,
    false, true, false, true, true, true, false)), (String ((Ascii (true,
    false, true, false, false, true, true, false)), (String ((Ascii (false,
    true, true, true, false, true, true, false)), (String ((Ascii (false,
    false, true, false, true, true, true, false)),
    EmptyString)))))))))))))))))))))))))))))))))))))))))))))))))))))))))))))))))))))))))))))))))))))))))))))))))))))))))))))))),
    (e parse_tls_extension_signed_certificate_timestamp_content sx_ext)) :: (((String
    ((Ascii (false, false, false, false, true, true, true, false)), (String
    ((Ascii (true, false, false, false, false, true, true, false)), (String
    ((Ascii (false, true, false, false, true, true, true, false)), (String
    ((Ascii (true, true, false, false, true, true, true, false)), (String
    ((Ascii (true, false, true, false, false, true, true, false)), (String
    ((Ascii (true, true, true, true, true, false, true, false)), (String
    ((Ascii (false, false, true, false, true, true, true, false)), (String
    ((Ascii (false, false, true, true, false, true, true, false)), (String
    ((Ascii (true, true, false, false, true, true, true, false)), (String
    ((Ascii (true, true, true, true, true, false, true, false)), (String
    ((Ascii (true, false, true, false, false, true, true, false)), (String
    ((Ascii (false, false, false, true, true, true, true, false)), (String
    ((Ascii (false, false, true, false, true, true, true, false)), (String
    ((Ascii (true, false, true, false, false, true, true, false)), (String
    ((Ascii (false, true, true, true, false, true, true, false)), (String
    ((Ascii (true, true, false, false, true, true, true, false)), (String
    ((Ascii (true, false, false, true, false, true, true, false)), (String
    ((Ascii (true, true, true, true, false, true, true, false)), (String
    ((Ascii (false, true, true, true, false, true, true, false)), (String
    ((Ascii (true, true, true, true, true, false, true, false)), (String
    ((Ascii (false, false, false, false, true, true, true, false)), (String
    ((Ascii (true, true, false, false, true, true, true, false)), (String
    ((Ascii (true, true, false, true, false, true, true, false)), (String
    ((Ascii (true, true, true, true, true, false, true, false)), (String
    ((Ascii (true, true, false, true, false, true, true, false)), (String
    ((Ascii (true, false, true, false, false, true, true, false)), (String
    ((Ascii (true, false, false, true, true, true, true, false)), (String
    ((Ascii (true, true, true, true, true, false, true, false)), (String
    ((Ascii (true, false, true, false, false, true, true, false)), (String
    ((Ascii (false, false, false, true, true, true, true, false)), (String
    ((Ascii (true, true, false, false, false, true, true, false)), (String
    ((Ascii (false, false, false, true, false, true, true, false)), (String
    ((Ascii (true, false, false, false, false, true, true, false)), (String
    ((Ascii (false, true, true, true, false, true, true, false)), (String
    ((Ascii (true, true, true, false, false, true, true, false)), (String
    ((Ascii (true, false, true, false, false, true, true, false)), (String
    ((Ascii (true, true, true, true, true, false, true, false)), (String
    ((Ascii (true, false, true, true, false, true, true, false)), (String
    ((Ascii (true, true, true, true, false, true, true, false)), (String
    ((Ascii (false, false, true, false, false, true, true, false)), (String
    ((Ascii (true, false, true, false, false, true, true, false)), (String
    ((Ascii (true, true, false, false, true, true, true, false)), (String
    ((Ascii (true, true, true, true, true, false, true, false)), (String
    ((Ascii (true, true, false, false, false, true, true, false)), (String
    ((Ascii (true, true, true, true, false, true, true, false)), (String
    ((Ascii (false, true, true, true, false, true, true, false)), (String
    ((Ascii (false, false, true, false, true, true, true, false)), (String
    ((Ascii (true, false, true, false, false, true, true, false)), (String
    ((Ascii (false, true, true, true, false, true, true, false)), (String
    ((Ascii (false, false, true, false, true, true, true, false)),
    EmptyString)))))))))))))))))))))))))))))))))))))))))))))))))))))))))))))))))))))))))))))))))))))))))))))))))))),
    (e parse_tls_extension_psk_key_exchange_modes_content sx_ext)) :: (((String
    ((Ascii (false, false, false, false, true, true, true, false)), (String
    ((Ascii (true, false, false, false, false, true, true, false)), (String
    ((Ascii (false, true, false, false, true, true, true, false)), (String
    ((Ascii (true, true, false, false, true, true, true, false)), (String
    ((Ascii (true, false, true, false, false, true, true, false)), (String
    ((Ascii (true, true, true, true, true, false, true, false)), (String
    ((Ascii (false, false, true, false, true, true, true, false)), (String
    ((Ascii (false, false, true, true, false, true, true, false)), (String
    ((Ascii (true, true, false, false, true, true, true, false)), (String
    ((Ascii (true, true, true, true, true, false, true, false)), (String
    ((Ascii (true, false, true, false, false, true, true, false)), (String
    ((Ascii (false, false, false, true, true, true, true, false)), (String
    ((Ascii (false, false, true, false, true, true, true, false)), (String
    ((Ascii (true, false, true, false, false, true, true, false)), (String
    ((Ascii (false, true, true, true, false, true, true, false)), (String
    ((Ascii (true, true, false, false, true, true, true, false)), (String
    ((Ascii (true, false, false, true, false, true, true, false)), (String
    ((Ascii (true, true, true, true, false, true, true, false)), (String
    ((Ascii (false, true, true, true, false, true, true, false)), (String
    ((Ascii (true, true, true, true, true, false, true, false)), (String
    ((Ascii (false, true, false, false, true, true, true, false)), (String
    ((Ascii (true, false, true, false, false, true, true, false)), (String
    ((Ascii (false, true, true, true, false, true, true, false)), (String
    ((Ascii (true, false, true, false, false, true, true, false)), (String
    ((Ascii (true, true, true, false, false, true, true, false)), (String
    ((Ascii (true, true, true, true, false, true, true, false)), (String
    ((Ascii (false, false, true, false, true, true, true, false)), (String
    ((Ascii (true, false, false, true, false, true, true, false)), (String
    ((Ascii (true, false, false, false, false, true, true, false)), (String
    ((Ascii (false, false, true, false, true, true, true, false)), (String
    ((Ascii (true, false, false, true, false, true, true, false)), (String
    ((Ascii (true, true, true, true, false, true, true, false)), (String
    ((Ascii (false, true, true, true, false, true, true, false)), (String
    ((Ascii (true, true, true, true, true, false, true, false)), (String
    ((Ascii (true, false, false, true, false, true, true, false)), (String
    ((Ascii (false, true, true, true, false, true, true, false)), (String
    ((Ascii (false, true, true, false, false, true, true, false)), (String
    ((Ascii (true, true, true, true, false, true, true, false)), (String
    ((Ascii (true, true, true, true, true, false, true, false)), (String
    ((Ascii (true, true, false, false, false, true, true, false)), (String
    ((Ascii (true, true, true, true, false, true, true, false)), (String
    ((Ascii (false, true, true, true, false, true, true, false)), (String
    ((Ascii (false, false, true, false, true, true, true, false)), (String
    ((Ascii (true, false, true, false, false, true, true, false)), (String
    ((Ascii (false, true, true, true, false, true, true, false)), (String
    ((Ascii (false, false, true, false, true, true, true, false)),
    EmptyString)))))))))))))))))))))))))))))))))))))))))))))))))))))))))))))))))))))))))))))))))))))))))))),
    (e parse_tls_extension_renegotiation_info_content sx_ext)) :: (((String
    ((Ascii (false, false, false, false, true, true, true, false)), (String
    ((Ascii (true, false, false, false, false, true, true, false)), (String
    ((Ascii (false, true, false, false, true, true, true, false)), (String
    ((Ascii (true, true, false, false, true, true, true, false)), (String
    ((Ascii (true, false, true, false, false, true, true, false)), (String
    ((Ascii (true, true, true, true, true, false, true, false)), (String
    ((Ascii (false, false, true, false, true, true, true, false)), (String
    ((Ascii (false, false, true, true, false, true, true, false)), (String
    ((Ascii (true, true, false, false, true, true, true, false)), (String
    ((Ascii (true, true, true, true, true, false, true, false)), (String
    ((Ascii (true, false, true, false, false, true, true, false)), (String
    ((Ascii (false, false, false, true, true, true, true, false)), (String
    ((Ascii (false, false, true, false, true, true, true, false)), (String
    ((Ascii (true, false, true, false, false, true, true, false)), (String
    ((Ascii (false, true, true, true, false, true, true, false)), (String
    ((Ascii (true, true, false, false, true, true, true, false)), (String
    ((Ascii (true, false, false, true, false, true, true, false)), (String
    ((Ascii (true, true, true, true, false, true, true, false)), (String
    ((Ascii (false, true, true, true, false, true, true, false)), (String
    ((Ascii (true, true, true, true, true, false, true, false)), (String
    ((Ascii (true, false, true, false, false, true, true, false)), (String
    ((Ascii (false, true, true, true, false, true, true, false)), (String
    ((Ascii (true, true, false, false, false, true, true, false)), (String
    ((Ascii (false, true, false, false, true, true, true, false)), (String
    ((Ascii (true, false, false, true, true, true, true, false)), (String
    ((Ascii (false, false, false, false, true, true, true, false)), (String
    ((Ascii (false, false, true, false, true, true, true, false)), (String
    ((Ascii (true, false, true, false, false, true, true, false)), (String
    ((Ascii (false, false, true, false, false, true, true, false)), (String
    ((Ascii (true, true, true, true, true, false, true, false)), (String
    ((Ascii (true, true, false, false, true, true, true, false)), (String
    ((Ascii (true, false, true, false, false, true, true, false)), (String
    ((Ascii (false, true, false, false, true, true, true, false)), (String
    ((Ascii (false, true, true, false, true, true, true, false)), (String
    ((Ascii (true, false, true, false, false, true, true, false)), (String
    ((Ascii (false, true, false, false, true, true, true, false)), (String
    ((Ascii (true, true, true, true, true, false, true, false)), (String
    ((Ascii (false, true, true, true, false, true, true, false)), (String
    ((Ascii (true, false, false, false, false, true, true, false)), (String
    ((Ascii (true, false, true, true, false, true, true, false)), (String
    ((Ascii (true, false, true, false, false, true, true, false)),
    EmptyString)))))))))))))))))))))))))))))))))))))))))))))))))))))))))))))))))))))))))))))))))),
    (e parse_tls_extension_encrypted_server_name sx_ext)) :: (((String
    ((Ascii (false, false, false, false, true, true, true, false)), (String
    ((Ascii (true, false, false, false, false, true, true, false)), (String
    ((Ascii (false, true, false, false, true, true, true, false)), (String
    ((Ascii (true, true, false, false, true, true, true, false)), (String
    ((Ascii (true, false, true, false, false, true, true, false)), (String
    ((Ascii (true, true, true, true, true, false, true, false)), (String
    ((Ascii (false, false, true, false, true, true, true, false)), (String
    ((Ascii (false, false, true, true, false, true, true, false)), (String
    ((Ascii (true, true, false, false, true, true, true, false)), (String
    ((Ascii (true, true, true, true, true, false, true, false)), (String
    ((Ascii (true, false, true, false, false, true, true, false)), (String
    ((Ascii (false, false, false, true, true, true, true, false)), (String
    ((Ascii (false, false, true, false, true, true, true, false)), (String
    ((Ascii (true, false, true, false, false, true, true, false)), (String
    ((Ascii (false, true, true, true, false, true, true, false)), (String
    ((Ascii (true, true, false, false, true, true, true, false)), (String
    ((Ascii (true, false, false, true, false, true, true, false)), (String
    ((Ascii (true, true, true, true, false, true, true, false)), (String
    ((Ascii (false, true, true, true, false, true, true, false)), (String
    ((Ascii (true, true, true, true, true, false, true, false)), (String
    ((Ascii (true, true, false, false, true, true, true, false)), (String
    ((Ascii (false, true, true, true, false, true, true, false)), (String
    ((Ascii (true, false, false, true, false, true, true, false)),
    EmptyString)))))))))))))))))))))))))))))))))))))))))))))),
    (e parse_tls_extension_sni sx_ext)) :: (((String ((Ascii (false, false,
    false, false, true, true, true, false)), (String ((Ascii (true, false,
    false, false, false, true, true, false)), (String ((Ascii (false, true,
    false, false, true, true, true, false)), (String ((Ascii (true, true,
    false, false, true, true, true, false)), (String ((Ascii (true, false,
    true, false, false, true, true, false)), (String ((Ascii (true, true,
    true, true, true, false, true, false)), (String ((Ascii (false, false,
    true, false, true, true, true, false)), (String ((Ascii (false, false,
    true, true, false, true, true, false)), (String ((Ascii (true, true,
    false, false, true, true, true, false)), (String ((Ascii (true, true,
    true, true, true, false, true, false)), (String ((Ascii (true, false,
    true, false, false, true, true, false)), (String ((Ascii (false, false,
    false, true, true, true, true, false)), (String ((Ascii (false, false,
    true, false, true, true, true, false)), (String ((Ascii (true, false,
    true, false, false, true, true, false)), (String ((Ascii (false, true,
    true, true, false, true, true, false)), (String ((Ascii (true, true,
    false, false, true, true, true, false)), (String ((Ascii (true, false,
    false, true, false, true, true, false)), (String ((Ascii (true, true,
    true, true, false, true, true, false)), (String ((Ascii (false, true,
    true, true, false, true, true, false)), (String ((Ascii (true, true,
    true, true, true, false, true, false)), (String ((Ascii (true, false,
    true, true, false, true, true, false)), (String ((Ascii (true, false,
    false, false, false, true, true, false)), (String ((Ascii (false, false,
    false, true, true, true, true, false)), (String ((Ascii (true, true,
    true, true, true, false, true, false)), (String ((Ascii (false, true,
    true, false, false, true, true, false)), (String ((Ascii (false, true,
    false, false, true, true, true, false)), (String ((Ascii (true, false,
    false, false, false, true, true, false)), (String ((Ascii (true, true,
    true, false, false, true, true, false)), (String ((Ascii (true, false,
    true, true, false, true, true, false)), (String ((Ascii (true, false,
    true, false, false, true, true, false)), (String ((Ascii (false, true,
    true, true, false, true, true, false)), (String ((Ascii (false, false,
    true, false, true, true, true, false)), (String ((Ascii (true, true,
    true, true, true, false, true, false)), (String ((Ascii (false, false,
    true, true, false, true, true, false)), (String ((Ascii (true, false,
    true, false, false, true, true, false)), (String ((Ascii (false, true,
    true, true, false, true, true, false)), (String ((Ascii (true, true,
    true, false, false, true, true, false)), (String ((Ascii (false, false,
    true, false, true, true, true, false)), (String ((Ascii (false, false,
    false, true, false, true, true, false)),
    EmptyString)))))))))))))))))))))))))))))))))))))))))))))))))))))))))))))))))))))))))))))),
    (e parse_tls_extension_max_fragment_length sx_ext)) :: (((String ((Ascii
    (false, false, false, false, true, true, true, false)), (String ((Ascii
    (true, false, false, false, false, true, true, false)), (String ((Ascii
    (false, true, false, false, true, true, true, false)), (String ((Ascii
    (true, true, false, false, true, true, true, false)), (String ((Ascii
    (true, false, true, false, false, true, true, false)), (String ((Ascii
    (true, true, true, true, true, false, true, false)), (String ((Ascii
    (false, false, true, false, true, true, true, false)), (String ((Ascii
    (false, false, true, true, false, true, true, false)), (String ((Ascii
    (true, true, false, false, true, true, true, false)), (String ((Ascii
    (true, true, true, true, true, false, true, false)), (String ((Ascii
    (true, false, true, false, false, true, true, false)), (String ((Ascii
    (false, false, false, true, true, true, true, false)), (String ((Ascii
    (false, false, true, false, true, true, true, false)), (String ((Ascii
    (true, false, true, false, false, true, true, false)), (String ((Ascii
    (false, true, true, true, false, true, true, false)), (String ((Ascii
    (true, true, false, false, true, true, true, false)), (String ((Ascii
    (true, false, false, true, false, true, true, false)), (String ((Ascii
    (true, true, true, true, false, true, true, false)), (String ((Ascii
    (false, true, true, true, false, true, true, false)), (String ((Ascii
    (true, true, true, true, true, false, true, false)), (String ((Ascii
    (true, true, false, false, true, true, true, false)), (String ((Ascii
    (false, false, true, false, true, true, true, false)), (String ((Ascii
    (true, false, false, false, false, true, true, false)), (String ((Ascii
    (false, false, true, false, true, true, true, false)), (String ((Ascii
    (true, false, true, false, true, true, true, false)), (String ((Ascii
    (true, true, false, false, true, true, true, false)), (String ((Ascii
    (true, true, true, true, true, false, true, false)), (String ((Ascii
    (false, true, false, false, true, true, true, false)), (String ((Ascii
    (true, false, true, false, false, true, true, false)), (String ((Ascii
    (true, false, false, false, true, true, true, false)), (String ((Ascii
    (true, false, true, false, true, true, true, false)), (String ((Ascii
    (true, false, true, false, false, true, true, false)), (String ((Ascii
    (true, true, false, false, true, true, true, false)), (String ((Ascii
    (false, false, true, false, true, true, true, false)),
    EmptyString)))))))))))))))))))))))))))))))))))))))))))))))))))))))))))))))))))),
    (e parse_tls_extension_status_request sx_ext)) :: (((String ((Ascii
    (false, false, false, false, true, true, true, false)), (String ((Ascii
    (true, false, false, false, false, true, true, false)), (String ((Ascii
    (false, true, false, false, true, true, true, false)), (String ((Ascii
    (true, true, false, false, true, true, true, false)), (String ((Ascii
    (true, false, true, false, false, true, true, false)), (String ((Ascii
    (true, true, true, true, true, false, true, false)), (String ((Ascii
    (false, false, true, false, true, true, true, false)), (String ((Ascii
    (false, false, true, true, false, true, true, false)), (String ((Ascii
    (true, true, false, false, true, true, true, false)), (String ((Ascii
    (true, true, true, true, true, false, true, false)), (String ((Ascii
    (true, false, true, false, false, true, true, false)), (String ((Ascii
    (false, false, false, true, true, true, true, false)), (String ((Ascii
    (false, false, true, false, true, true, true, false)), (String ((Ascii
    (true, false, true, false, false, true, true, false)), (String ((Ascii
    (false, true, true, true, false, true, true, false)), (String ((Ascii
    (true, true, false, false, true, true, true, false)), (String ((Ascii
    (true, false, false, true, false, true, true, false)), (String ((Ascii
    (true, true, true, true, false, true, true, false)), (String ((Ascii
    (false, true, true, true, false, true, true, false)), (String ((Ascii
    (true, true, true, true, true, false, true, false)), (String ((Ascii
    (true, false, true, false, false, true, true, false)), (String ((Ascii
    (false, false, true, true, false, true, true, false)), (String ((Ascii
    (false, false, true, true, false, true, true, false)), (String ((Ascii
    (true, false, false, true, false, true, true, false)), (String ((Ascii
    (false, false, false, false, true, true, true, false)), (String ((Ascii
    (false, false, true, false, true, true, true, false)), (String ((Ascii
    (true, false, false, true, false, true, true, false)), (String ((Ascii
    (true, true, false, false, false, true, true, false)), (String ((Ascii
    (true, true, true, true, true, false, true, false)), (String ((Ascii
    (true, true, false, false, false, true, true, false)), (String ((Ascii
    (true, false, true, false, true, true, true, false)), (String ((Ascii
    (false, true, false, false, true, true, true, false)), (String ((Ascii
    (false, true, true, false, true, true, true, false)), (String ((Ascii
    (true, false, true, false, false, true, true, false)), (String ((Ascii
    (true, true, false, false, true, true, true, false)),
    EmptyString)))))))))))))))))))))))))))))))))))))))))))))))))))))))))))))))))))))),
    (e parse_tls_extension_elliptic_curves sx_ext)) :: (((String ((Ascii
    (false, false, false, false, true, true, true, false)), (String ((Ascii
    (true, false, false, false, false, true, true, false)), (String ((Ascii
    (false, true, false, false, true, true, true, false)), (String ((Ascii
    (true, true, false, false, true, true, true, false)), (String ((Ascii
    (true, false, true, false, false, true, true, false)), (String ((Ascii
    (true, true, true, true, true, false, true, false)), (String ((Ascii
    (false, false, true, false, true, true, true, false)), (String ((Ascii
    (false, false, true, true, false, true, true, false)), (String ((Ascii
    (true, true, false, false, true, true, true, false)), (String ((Ascii
    (true, true, true, true, true, false, true, false)), (String ((Ascii
    (true, false, true, false, false, true, true, false)), (String ((Ascii
    (false, false, false, true, true, true, true, false)), (String ((Ascii
    (false, false, true, false, true, true, true, false)), (String ((Ascii
    (true, false, true, false, false, true, true, false)), (String ((Ascii
    (false, true, true, true, false, true, true, false)), (String ((Ascii
    (true, true, false, false, true, true, true, false)), (String ((Ascii
    (true, false, false, true, false, true, true, false)), (String ((Ascii
    (true, true, true, true, false, true, true, false)), (String ((Ascii
    (false, true, true, true, false, true, true, false)), (String ((Ascii
    (true, true, true, true, true, false, true, false)), (String ((Ascii
    (true, false, true, false, false, true, true, false)), (String ((Ascii
    (true, true, false, false, false, true, true, false)), (String ((Ascii
    (true, true, true, true, true, false, true, false)), (String ((Ascii
    (false, false, false, false, true, true, true, false)), (String ((Ascii
    (true, true, true, true, false, true, true, false)), (String ((Ascii
    (true, false, false, true, false, true, true, false)), (String ((Ascii
    (false, true, true, true, false, true, true, false)), (String ((Ascii
    (false, false, true, false, true, true, true, false)), (String ((Ascii
    (true, true, true, true, true, false, true, false)), (String ((Ascii
    (false, true, true, false, false, true, true, false)), (String ((Ascii
    (true, true, true, true, false, true, true, false)), (String ((Ascii
    (false, true, false, false, true, true, true, false)), (String ((Ascii
    (true, false, true, true, false, true, true, false)), (String ((Ascii
    (true, false, false, false, false, true, true, false)), (String ((Ascii
    (false, false, true, false, true, true, true, false)), (String ((Ascii
    (true, true, false, false, true, true, true, false)),
    EmptyString)))))))))))))))))))))))))))))))))))))))))))))))))))))))))))))))))))))))),
    (e parse_tls_extension_ec_point_formats sx_ext)) :: (((String ((Ascii
    (false, false, false, false, true, true, true, false)), (String ((Ascii
    (true, false, false, false, false, true, true, false)), (String ((Ascii
    (false, true, false, false, true, true, true, false)), (String ((Ascii
    (true, true, false, false, true, true, true, false)), (String ((Ascii
    (true, false, true, false, false, true, true, false)), (String ((Ascii
    (true, true, true, true, true, false, true, false)), (String ((Ascii
    (false, false, true, false, true, true, true, false)), (String ((Ascii
    (false, false, true, true, false, true, true, false)), (String ((Ascii
    (true, true, false, false, true, true, true, false)), (String ((Ascii
    (true, true, true, true, true, false, true, false)), (String ((Ascii
    (true, false, true, false, false, true, true, false)), (String ((Ascii
    (false, false, false, true, true, true, true, false)), (String ((Ascii
    (false, false, true, false, true, true, true, false)), (String ((Ascii
    (true, false, true, false, false, true, true, false)), (String ((Ascii
    (false, true, true, true, false, true, true, false)), (String ((Ascii
    (true, true, false, false, true, true, true, false)), (String ((Ascii
    (true, false, false, true, false, true, true, false)), (String ((Ascii
    (true, true, true, true, false, true, true, false)), (String ((Ascii
    (false, true, true, true, false, true, true, false)), (String ((Ascii
    (true, true, true, true, true, false, true, false)), (String ((Ascii
    (true, true, false, false, true, true, true, false)), (String ((Ascii
    (true, false, false, true, false, true, true, false)), (String ((Ascii
    (true, true, true, false, false, true, true, false)), (String ((Ascii
    (false, true, true, true, false, true, true, false)), (String ((Ascii
    (true, false, false, false, false, true, true, false)), (String ((Ascii
    (false, false, true, false, true, true, true, false)), (String ((Ascii
    (true, false, true, false, true, true, true, false)), (String ((Ascii
    (false, true, false, false, true, true, true, false)), (String ((Ascii
    (true, false, true, false, false, true, true, false)), (String ((Ascii
    (true, true, true, true, true, false, true, false)), (String ((Ascii
    (true, false, false, false, false, true, true, false)), (String ((Ascii
    (false, false, true, true, false, true, true, false)), (String ((Ascii
    (true, true, true, false, false, true, true, false)), (String ((Ascii
    (true, true, true, true, false, true, true, false)), (String ((Ascii
    (false, true, false, false, true, true, true, false)), (String ((Ascii
    (true, false, false, true, false, true, true, false)), (String ((Ascii
    (false, false, true, false, true, true, true, false)), (String ((Ascii
    (false, false, false, true, false, true, true, false)), (String ((Ascii
    (true, false, true, true, false, true, true, false)), (String ((Ascii
    (true, true, false, false, true, true, true, false)),
    EmptyString)))))))))))))))))))))))))))))))))))))))))))))))))))))))))))))))))))))))))))))))),
    (e parse_tls_extension_signature_algorithms sx_ext)) :: (((String ((Ascii
    (false, false, false, false, true, true, true, false)), (String ((Ascii
    (true, false, false, false, false, true, true, false)), (String ((Ascii
    (false, true, false, false, true, true, true, false)), (String ((Ascii
    (true, true, false, false, true, true, true, false)), (String ((Ascii
    (true, false, true, false, false, true, true, false)), (String ((Ascii
    (true, true, true, true, true, false, true, false)), (String ((Ascii
    (false, false, true, false, true, true, true, false)), (String ((Ascii
    (false, false, true, true, false, true, true, false)), (String ((Ascii
    (true, true, false, false, true, true, true, false)), (String ((Ascii
    (true, true, true, true, true, false, true, false)), (String ((Ascii
    (true, false, true, false, false, true, true, false)), (String ((Ascii
    (false, false, false, true, true, true, true, false)), (String ((Ascii
    (false, false, true, false, true, true, true, false)), (String ((Ascii
    (true, false, true, false, false, true, true, false)), (String ((Ascii
    (false, true, true, true, false, true, true, false)), (String ((Ascii
    (true, true, false, false, true, true, true, false)), (String ((Ascii
    (true, false, false, true, false, true, true, false)), (String ((Ascii
    (true, true, true, true, false, true, true, false)), (String ((Ascii
    (false, true, true, true, false, true, true, false)), (String ((Ascii
    (true, true, true, true, true, false, true, false)), (String ((Ascii
    (false, false, false, true, false, true, true, false)), (String ((Ascii
    (true, false, true, false, false, true, true, false)), (String ((Ascii
    (true, false, false, false, false, true, true, false)), (String ((Ascii
    (false, true, false, false, true, true, true, false)), (String ((Ascii
    (false, false, true, false, true, true, true, false)), (String ((Ascii
    (false, true, false, false, false, true, true, false)), (String ((Ascii
    (true, false, true, false, false, true, true, false)), (String ((Ascii
    (true, false, false, false, false, true, true, false)), (String ((Ascii
    (false, false, true, false, true, true, true, false)),
    EmptyString)))))))))))))))))))))))))))))))))))))))))))))))))))))))))),
    (e parse_tls_extension_heartbeat sx_ext)) :: (((String ((Ascii (false,
    false, false, false, true, true, true, false)), (String ((Ascii (true,
    false, false, false, false, true, true, false)), (String ((Ascii (false,
    true, false, false, true, true, true, false)), (String ((Ascii (true,
    true, false, false, true, true, true, false)), (String ((Ascii (true,
    false, true, false, false, true, true, false)), (String ((Ascii (true,
    true, true, true, true, false, true, false)), (String ((Ascii (false,
    false, true, false, true, true, true, false)), (String ((Ascii (false,
    false, true, true, false, true, true, false)), (String ((Ascii (true,
    true, false, false, true, true, true, false)), (String ((Ascii (true,
    true, true, true, true, false, true, false)), (String ((Ascii (true,
    false, true, false, false, true, true, false)), (String ((Ascii (false,
    false, false, true, true, true, true, false)), (String ((Ascii (false,
    false, true, false, true, true, true, false)), (String ((Ascii (true,
    false, true, false, false, true, true, false)), (String ((Ascii (false,
    true, true, true, false, true, true, false)), (String ((Ascii (true,
    true, false, false, true, true, true, false)), (String ((Ascii (true,
    false, false, true, false, true, true, false)), (String ((Ascii (true,
    true, true, true, false, true, true, false)), (String ((Ascii (false,
    true, true, true, false, true, true, false)), (String ((Ascii (true,
    true, true, true, true, false, true, false)), (String ((Ascii (true,
    false, true, false, false, true, true, false)), (String ((Ascii (false,
    true, true, true, false, true, true, false)), (String ((Ascii (true,
    true, false, false, false, true, true, false)), (String ((Ascii (false,
    true, false, false, true, true, true, false)), (String ((Ascii (true,
    false, false, true, true, true, true, false)), (String ((Ascii (false,
    false, false, false, true, true, true, false)), (String ((Ascii (false,
    false, true, false, true, true, true, false)), (String ((Ascii (true,
    true, true, true, true, false, true, false)), (String ((Ascii (false,
    false, true, false, true, true, true, false)), (String ((Ascii (false,
    false, false, true, false, true, true, false)), (String ((Ascii (true,
    false, true, false, false, true, true, false)), (String ((Ascii (false,
    true, true, true, false, true, true, false)), (String ((Ascii (true,
    true, true, true, true, false, true, false)), (String ((Ascii (true,
    false, true, true, false, true, true, false)), (String ((Ascii (true,
    false, false, false, false, true, true, false)), (String ((Ascii (true,
    true, false, false, false, true, true, false)),
    EmptyString)))))))))))))))))))))))))))))))))))))))))))))))))))))))))))))))))))))))),
    (e parse_tls_extension_encrypt_then_mac sx_ext)) :: (((String ((Ascii
    (false, false, false, false, true, true, true, false)), (String ((Ascii
    (true, false, false, false, false, true, true, false)), (String ((Ascii
    (false, true, false, false, true, true, true, false)), (String ((Ascii
    (true, true, false, false, true, true, true, false)), (String ((Ascii
    (true, false, true, false, false, true, true, false)), (String ((Ascii
    (true, true, true, true, true, false, true, false)), (String ((Ascii
    (false, false, true, false, true, true, true, false)), (String ((Ascii
    (false, false, true, true, false, true, true, false)), (String ((Ascii
    (true, true, false, false, true, true, true, false)), (String ((Ascii
    (true, true, true, true, true, false, true, false)), (String ((Ascii
    (true, false, true, false, false, true, true, false)), (String ((Ascii
    (false, false, false, true, true, true, true, false)), (String ((Ascii
    (false, false, true, false, true, true, true, false)), (String ((Ascii
    (true, false, true, false, false, true, true, false)), (String ((Ascii
    (false, true, true, true, false, true, true, false)), (String ((Ascii
    (true, true, false, false, true, true, true, false)), (String ((Ascii
    (true, false, false, true, false, true, true, false)), (String ((Ascii
    (true, true, true, true, false, true, true, false)), (String ((Ascii
    (false, true, true, true, false, true, true, false)), (String ((Ascii
    (true, true, true, true, true, false, true, false)), (String ((Ascii
    (true, false, true, false, false, true, true, false)), (String ((Ascii
    (false, false, false, true, true, true, true, false)), (String ((Ascii
    (false, false, true, false, true, true, true, false)), (String ((Ascii
    (true, false, true, false, false, true, true, false)), (String ((Ascii
    (false, true, true, true, false, true, true, false)), (String ((Ascii
    (false, false, true, false, false, true, true, false)), (String ((Ascii
    (true, false, true, false, false, true, true, false)), (String ((Ascii
    (false, false, true, false, false, true, true, false)), (String ((Ascii
    (true, true, true, true, true, false, true, false)), (String ((Ascii
    (true, false, true, true, false, true, true, false)), (String ((Ascii
    (true, false, false, false, false, true, true, false)), (String ((Ascii
    (true, true, false, false, true, true, true, false)), (String ((Ascii
    (false, false, true, false, true, true, true, false)), (String ((Ascii
    (true, false, true, false, false, true, true, false)), (String ((Ascii
    (false, true, false, false, true, true, true, false)), (String ((Ascii
    (true, true, true, true, true, false, true, false)), (String ((Ascii
    (true, true, false, false, true, true, true, false)), (String ((Ascii
    (true, false, true, false, false, true, true, false)), (String ((Ascii
    (true, true, false, false, false, true, true, false)), (String ((Ascii
    (false, true, false, false, true, true, true, false)), (String ((Ascii
    (true, false, true, false, false, true, true, false)), (String ((Ascii
    (false, false, true, false, true, true, true, false)),
    EmptyString)))))))))))))))))))))))))))))))))))))))))))))))))))))))))))))))))))))))))))))))))))),
    (e parse_tls_extension_extended_master_secret sx_ext)) :: (((String
    ((Ascii (false, false, false, false, true, true, true, false)), (String
    ((Ascii (true, false, false, false, false, true, true, false)), (String
    ((Ascii (false, true, false, false, true, true, true, false)), (String
    ((Ascii (true, true, false, false, true, true, true, false)), (String
    ((Ascii (true, false, true, false, false, true, true, false)), (String
    ((Ascii (true, true, true, true, true, false, true, false)), (String
    ((Ascii (false, false, true, false, true, true, true, false)), (String
    ((Ascii (false, false, true, true, false, true, true, false)), (String
    ((Ascii (true, true, false, false, true, true, true, false)), (String
    ((Ascii (true, true, true, true, true, false, true, false)), (String
    ((Ascii (true, false, true, false, false, true, true, false)), (String
    ((Ascii (false, false, false, true, true, true, true, false)), (String
    ((Ascii (false, false, true, false, true, true, true, false)), (String
    ((Ascii (true, false, true, false, false, true, true, false)), (String
    ((Ascii (false, true, true, true, false, true, true, false)), (String
    ((Ascii (true, true, false, false, true, true, true, false)), (String
    ((Ascii (true, false, false, true, false, true, true, false)), (String
    ((Ascii (true, true, true, true, false, true, true, false)), (String
    ((Ascii (false, true, true, true, false, true, true, false)), (String
    ((Ascii (true, true, true, true, true, false, true, false)), (String
    ((Ascii (true, true, false, false, true, true, true, false)), (String
    ((Ascii (true, false, true, false, false, true, true, false)), (String
    ((Ascii (true, true, false, false, true, true, true, false)), (String
    ((Ascii (true, true, false, false, true, true, true, false)), (String
    ((Ascii (true, false, false, true, false, true, true, false)), (String
    ((Ascii (true, true, true, true, false, true, true, false)), (String
    ((Ascii (false, true, true, true, false, true, true, false)), (String
    ((Ascii (true, true, true, true, true, false, true, false)), (String
    ((Ascii (false, false, true, false, true, true, true, false)), (String
    ((Ascii (true, false, false, true, false, true, true, false)), (String
    ((Ascii (true, true, false, false, false, true, true, false)), (String
    ((Ascii (true, true, false, true, false, true, true, false)), (String
    ((Ascii (true, false, true, false, false, true, true, false)), (String
    ((Ascii (false, false, true, false, true, true, true, false)),
    EmptyString)))))))))))))))))))))))))))))))))))))))))))))))))))))))))))))))))))),
    (e parse_tls_extension_session_ticket sx_ext)) :: (((String ((Ascii
    (false, false, false, false, true, true, true, false)), (String ((Ascii
    (true, false, false, false, false, true, true, false)), (String ((Ascii
    (false, true, false, false, true, true, true, false)), (String ((Ascii
    (true, true, false, false, true, true, true, false)), (String ((Ascii
    (true, false, true, false, false, true, true, false)), (String ((Ascii
    (true, true, true, true, true, false, true, false)), (String ((Ascii
    (false, false, true, false, true, true, true, false)), (String ((Ascii
    (false, false, true, true, false, true, true, false)), (String ((Ascii
    (true, true, false, false, true, true, true, false)), (String ((Ascii
    (true, true, true, true, true, false, true, false)), (String ((Ascii
    (true, false, true, false, false, true, true, false)), (String ((Ascii
    (false, false, false, true, true, true, true, false)), (String ((Ascii
    (false, false, true, false, true, true, true, false)), (String ((Ascii
    (true, false, true, false, false, true, true, false)), (String ((Ascii
    (false, true, true, true, false, true, true, false)), (String ((Ascii
    (true, true, false, false, true, true, true, false)), (String ((Ascii
    (true, false, false, true, false, true, true, false)), (String ((Ascii
    (true, true, true, true, false, true, true, false)), (String ((Ascii
    (false, true, true, true, false, true, true, false)), (String ((Ascii
    (true, true, true, true, true, false, true, false)), (String ((Ascii
    (true, true, false, true, false, true, true, false)), (String ((Ascii
    (true, false, true, false, false, true, true, false)), (String ((Ascii
    (true, false, false, true, true, true, true, false)), (String ((Ascii
    (true, true, true, true, true, false, true, false)), (String ((Ascii
    (true, true, false, false, true, true, true, false)), (String ((Ascii
    (false, false, false, true, false, true, true, false)), (String ((Ascii
    (true, false, false, false, false, true, true, false)), (String ((Ascii
    (false, true, false, false, true, true, true, false)), (String ((Ascii
    (true, false, true, false, false, true, true, false)),
    EmptyString)))))))))))))))))))))))))))))))))))))))))))))))))))))))))),
    (e parse_tls_extension_key_share sx_ext)) :: (((String ((Ascii (false,
    false, false, false, true, true, true, false)), (String ((Ascii (true,
    false, false, false, false, true, true, false)), (String ((Ascii (false,
    true, false, false, true, true, true, false)), (String ((Ascii (true,
    true, false, false, true, true, true, false)), (String ((Ascii (true,
    false, true, false, false, true, true, false)), (String ((Ascii (true,
    true, true, true, true, false, true, false)), (String ((Ascii (false,
    false, true, false, true, true, true, false)), (String ((Ascii (false,
    false, true, true, false, true, true, false)), (String ((Ascii (true,
    true, false, false, true, true, true, false)), (String ((Ascii (true,
    true, true, true, true, false, true, false)), (String ((Ascii (true,
    false, true, false, false, true, true, false)), (String ((Ascii (false,
    false, false, true, true, true, true, false)), (String ((Ascii (false,
    false, true, false, true, true, true, false)), (String ((Ascii (true,
    false, true, false, false, true, true, false)), (String ((Ascii (false,
    true, true, true, false, true, true, false)), (String ((Ascii (true,
    true, false, false, true, true, true, false)), (String ((Ascii (true,
    false, false, true, false, true, true, false)), (String ((Ascii (true,
    true, true, true, false, true, true, false)), (String ((Ascii (false,
    true, true, true, false, true, true, false)), (String ((Ascii (true,
    true, true, true, true, false, true, false)), (String ((Ascii (false,
    false, false, false, true, true, true, false)), (String ((Ascii (false,
    true, false, false, true, true, true, false)), (String ((Ascii (true,
    false, true, false, false, true, true, false)), (String ((Ascii (true,
    true, true, true, true, false, true, false)), (String ((Ascii (true,
    true, false, false, true, true, true, false)), (String ((Ascii (false,
    false, false, true, false, true, true, false)), (String ((Ascii (true,
    false, false, false, false, true, true, false)), (String ((Ascii (false,
    true, false, false, true, true, true, false)), (String ((Ascii (true,
    false, true, false, false, true, true, false)), (String ((Ascii (false,
    false, true, false, false, true, true, false)), (String ((Ascii (true,
    true, true, true, true, false, true, false)), (String ((Ascii (true,
    true, false, true, false, true, true, false)), (String ((Ascii (true,
    false, true, false, false, true, true, false)), (String ((Ascii (true,
    false, false, true, true, true, true, false)),
    EmptyString)))))))))))))))))))))))))))))))))))))))))))))))))))))))))))))))))))),
    (e parse_tls_extension_pre_shared_key sx_ext)) :: (((String ((Ascii
    (false, false, false, false, true, true, true, false)), (String ((Ascii
    (true, false, false, false, false, true, true, false)), (String ((Ascii
    (false, true, false, false, true, true, true, false)), (String ((Ascii
    (true, true, false, false, true, true, true, false)), (String ((Ascii
    (true, false, true, false, false, true, true, false)), (String ((Ascii
    (true, true, true, true, true, false, true, false)), (String ((Ascii
    (false, false, true, false, true, true, true, false)), (String ((Ascii
    (false, false, true, true, false, true, true, false)), (String ((Ascii
    (true, true, false, false, true, true, true, false)), (String ((Ascii
    (true, true, true, true, true, false, true, false)), (String ((Ascii
    (true, false, true, false, false, true, true, false)), (String ((Ascii
    (false, false, false, true, true, true, true, false)), (String ((Ascii
    (false, false, true, false, true, true, true, false)), (String ((Ascii
    (true, false, true, false, false, true, true, false)), (String ((Ascii
    (false, true, true, true, false, true, true, false)), (String ((Ascii
    (true, true, false, false, true, true, true, false)), (String ((Ascii
    (true, false, false, true, false, true, true, false)), (String ((Ascii
    (true, true, true, true, false, true, true, false)), (String ((Ascii
    (false, true, true, true, false, true, true, false)), (String ((Ascii
    (true, true, true, true, true, false, true, false)), (String ((Ascii
    (true, false, true, false, false, true, true, false)), (String ((Ascii
    (true, false, false, false, false, true, true, false)), (String ((Ascii
    (false, true, false, false, true, true, true, false)), (String ((Ascii
    (false, false, true, true, false, true, true, false)), (String ((Ascii
    (true, false, false, true, true, true, true, false)), (String ((Ascii
    (true, true, true, true, true, false, true, false)), (String ((Ascii
    (false, false, true, false, false, true, true, false)), (String ((Ascii
    (true, false, false, false, false, true, true, false)), (String ((Ascii
    (false, false, true, false, true, true, true, false)), (String ((Ascii
    (true, false, false, false, false, true, true, false)),
    EmptyString)))))))))))))))))))))))))))))))))))))))))))))))))))))))))))),
    (e parse_tls_extension_early_data sx_ext)) :: (((String ((Ascii (false,
    false, false, false, true, true, true, false)), (String ((Ascii (true,
    false, false, false, false, true, true, false)), (String ((Ascii (false,
    true, false, false, true, true, true, false)), (String ((Ascii (true,
    true, false, false, true, true, true, false)), (String ((Ascii (true,
    false, true, false, false, true, true, false)), (String ((Ascii (true,
    true, true, true, true, false, true, false)), (String ((Ascii (false,
    false, true, false, true, true, true, false)), (String ((Ascii (false,
    false, true, true, false, true, true, false)), (String ((Ascii (true,
    true, false, false, true, true, true, false)), (String ((Ascii (true,
    true, true, true, true, false, true, false)), (String ((Ascii (true,
    false, true, false, false, true, true, false)), (String ((Ascii (false,
    false, false, true, true, true, true, false)), (String ((Ascii (false,
    false, true, false, true, true, true, false)), (String ((Ascii (true,
    false, true, false, false, true, true, false)), (String ((Ascii (false,
    true, true, true, false, true, true, false)), (String ((Ascii (true,
    true, false, false, true, true, true, false)), (String ((Ascii (true,
    false, false, true, false, true, true, false)), (String ((Ascii (true,
    true, true, true, false, true, true, false)), (String ((Ascii (false,
    true, true, true, false, true, true, false)), (String ((Ascii (true,
    true, true, true, true, false, true, false)), (String ((Ascii (true,
    true, false, false, true, true, true, false)), (String ((Ascii (true,
    false, true, false, true, true, true, false)), (String ((Ascii (false,
    false, false, false, true, true, true, false)), (String ((Ascii (false,
    false, false, false, true, true, true, false)), (String ((Ascii (true,
    true, true, true, false, true, true, false)), (String ((Ascii (false,
    true, false, false, true, true, true, false)), (String ((Ascii (false,
    false, true, false, true, true, true, false)), (String ((Ascii (true,
    false, true, false, false, true, true, false)), (String ((Ascii (false,
    false, true, false, false, true, true, false)), (String ((Ascii (true,
    true, true, true, true, false, true, false)), (String ((Ascii (false,
    true, true, false, true, true, true, false)), (String ((Ascii (true,
    false, true, false, false, true, true, false)), (String ((Ascii (false,
    true, false, false, true, true, true, false)), (String ((Ascii (true,
    true, false, false, true, true, true, false)), (String ((Ascii (true,
    false, false, true, false, true, true, false)), (String ((Ascii (true,
    true, true, true, false, true, true, false)), (String ((Ascii (false,
    true, true, true, false, true, true, false)), (String ((Ascii (true,
    true, false, false, true, true, true, false)),
    EmptyString)))))))))))))))))))))))))))))))))))))))))))))))))))))))))))))))))))))))))))),
    (e parse_tls_extension_supported_versions sx_ext)) :: (((String ((Ascii
    (false, false, false, false, true, true, true, false)), (String ((Ascii
    (true, false, false, false, false, true, true, false)), (String ((Ascii
    (false, true, false, false, true, true, true, false)), (String ((Ascii
    (true, true, false, false, true, true, true, false)), (String ((Ascii
    (true, false, true, false, false, true, true, false)), (String ((Ascii
    (true, true, true, true, true, false, true, false)), (String ((Ascii
    (false, false, true, false, true, true, true, false)), (String ((Ascii
    (false, false, true, true, false, true, true, false)), (String ((Ascii
    (true, true, false, false, true, true, true, false)), (String ((Ascii
    (true, true, true, true, true, false, true, false)), (String ((Ascii
    (true, false, true, false, false, true, true, false)), (String ((Ascii
    (false, false, false, true, true, true, true, false)), (String ((Ascii
    (false, false, true, false, true, true, true, false)), (String ((Ascii
    (true, false, true, false, false, true, true, false)), (String ((Ascii
    (false, true, true, true, false, true, true, false)), (String ((Ascii
    (true, true, false, false, true, true, true, false)), (String ((Ascii
    (true, false, false, true, false, true, true, false)), (String ((Ascii
    (true, true, true, true, false, true, true, false)), (String ((Ascii
    (false, true, true, true, false, true, true, false)), (String ((Ascii
    (true, true, true, true, true, false, true, false)), (String ((Ascii
    (true, true, false, false, false, true, true, false)), (String ((Ascii
    (true, true, true, true, false, true, true, false)), (String ((Ascii
    (true, true, true, true, false, true, true, false)), (String ((Ascii
    (true, true, false, true, false, true, true, false)), (String ((Ascii
    (true, false, false, true, false, true, true, false)), (String ((Ascii
    (true, false, true, false, false, true, true, false)),
    EmptyString)))))))))))))))))))))))))))))))))))))))))))))))))))),
    (e parse_tls_extension_cookie sx_ext)) :: (((String ((Ascii (false,
    false, false, false, true, true, true, false)), (String ((Ascii (true,
    false, false, false, false, true, true, false)), (String ((Ascii (false,
    true, false, false, true, true, true, false)), (String ((Ascii (true,
    true, false, false, true, true, true, false)), (String ((Ascii (true,
    false, true, false, false, true, true, false)), (String ((Ascii (true,
    true, true, true, true, false, true, false)), (String ((Ascii (false,
    false, true, false, true, true, true, false)), (String ((Ascii (false,
    false, true, true, false, true, true, false)), (String ((Ascii (true,
    true, false, false, true, true, true, false)), (String ((Ascii (true,
    true, true, true, true, false, true, false)), (String ((Ascii (true,
    false, true, false, false, true, true, false)), (String ((Ascii (false,
    false, false, true, true, true, true, false)), (String ((Ascii (false,
    false, true, false, true, true, true, false)), (String ((Ascii (true,
    false, true, false, false, true, true, false)), (String ((Ascii (false,
    true, true, true, false, true, true, false)), (String ((Ascii (true,
    true, false, false, true, true, true, false)), (String ((Ascii (true,
    false, false, true, false, true, true, false)), (String ((Ascii (true,
    true, true, true, false, true, true, false)), (String ((Ascii (false,
    true, true, true, false, true, true, false)), (String ((Ascii (true,
    true, true, true, true, false, true, false)), (String ((Ascii (false,
    false, false, false, true, true, true, false)), (String ((Ascii (true,
    true, false, false, true, true, true, false)), (String ((Ascii (true,
    true, false, true, false, true, true, false)), (String ((Ascii (true,
    true, true, true, true, false, true, false)), (String ((Ascii (true,
    true, false, true, false, true, true, false)), (String ((Ascii (true,
    false, true, false, false, true, true, false)), (String ((Ascii (true,
    false, false, true, true, true, true, false)), (String ((Ascii (true,
    true, true, true, true, false, true, false)), (String ((Ascii (true,
    false, true, false, false, true, true, false)), (String ((Ascii (false,
    false, false, true, true, true, true, false)), (String ((Ascii (true,
    true, false, false, false, true, true, false)), (String ((Ascii (false,
    false, false, true, false, true, true, false)), (String ((Ascii (true,
    false, false, false, false, true, true, false)), (String ((Ascii (false,
    true, true, true, false, true, true, false)), (String ((Ascii (true,
    true, true, false, false, true, true, false)), (String ((Ascii (true,
    false, true, false, false, true, true, false)), (String ((Ascii (true,
    true, true, true, true, false, true, false)), (String ((Ascii (true,
    false, true, true, false, true, true, false)), (String ((Ascii (true,
    true, true, true, false, true, true, false)), (String ((Ascii (false,
    false, true, false, false, true, true, false)), (String ((Ascii (true,
    false, true, false, false, true, true, false)), (String ((Ascii (true,
    true, false, false, true, true, true, false)),
    EmptyString)))))))))))))))))))))))))))))))))))))))))))))))))))))))))))))))))))))))))))))))))))),
    (e parse_tls_extension_psk_key_exchange_modes sx_ext)) :: (((String
    ((Ascii (false, false, false, false, true, true, true, false)), (String
    ((Ascii (true, false, false, false, false, true, true, false)), (String
    ((Ascii (false, true, false, false, true, true, true, false)), (String
    ((Ascii (true, true, false, false, true, true, true, false)), (String
    ((Ascii (true, false, true, false, false, true, true, false)), (String
    ((Ascii (true, true, true, true, true, false, true, false)), (String
    ((Ascii (false, true, true, true, false, true, true, false)), (String
    ((Ascii (true, false, false, false, false, true, true, false)), (String
    ((Ascii (true, false, true, true, false, true, true, false)), (String
    ((Ascii (true, false, true, false, false, true, true, false)), (String
    ((Ascii (false, false, true, false, false, true, true, false)), (String
    ((Ascii (true, true, true, true, true, false, true, false)), (String
    ((Ascii (true, true, true, false, false, true, true, false)), (String
    ((Ascii (false, true, false, false, true, true, true, false)), (String
    ((Ascii (true, true, true, true, false, true, true, false)), (String
    ((Ascii (true, false, true, false, true, true, true, false)), (String
    ((Ascii (false, false, false, false, true, true, true, false)), (String
    ((Ascii (true, true, false, false, true, true, true, false)),
    EmptyString)))))))))))))))))))))))))))))))))))),
    (e parse_named_groups (slist (fun x -> SN x)))) :: [])))))))))))))))))))))))))))))))))))

(** val entries_kx : (string * entry_fn) list **)

let entries_kx =
  ((String ((Ascii (false, false, false, false, true, true, true, false)),
    (String ((Ascii (true, false, false, false, false, true, true, false)),
    (String ((Ascii (false, true, false, false, true, true, true, false)),
    (String ((Ascii (true, true, false, false, true, true, true, false)),
    (String ((Ascii (true, false, true, false, false, true, true, false)),
    (String ((Ascii (true, true, true, true, true, false, true, false)),
    (String ((Ascii (false, false, true, false, false, true, true, false)),
    (String ((Ascii (false, false, false, true, false, true, true, false)),
    (String ((Ascii (true, true, true, true, true, false, true, false)),
    (String ((Ascii (false, false, false, false, true, true, true, false)),
    (String ((Ascii (true, false, false, false, false, true, true, false)),
    (String ((Ascii (false, true, false, false, true, true, true, false)),
    (String ((Ascii (true, false, false, false, false, true, true, false)),
    (String ((Ascii (true, false, true, true, false, true, true, false)),
    (String ((Ascii (true, true, false, false, true, true, true, false)),
    EmptyString)))))))))))))))))))))))))))))),
    (e parse_dh_params sx_dh)) :: (((String ((Ascii (false, false, false,
    false, true, true, true, false)), (String ((Ascii (true, false, false,
    false, false, true, true, false)), (String ((Ascii (false, true, false,
    false, true, true, true, false)), (String ((Ascii (true, true, false,
    false, true, true, true, false)), (String ((Ascii (true, false, true,
    false, false, true, true, false)), (String ((Ascii (true, true, true,
    true, true, false, true, false)), (String ((Ascii (true, false, true,
    false, false, true, true, false)), (String ((Ascii (true, true, false,
    false, false, true, true, false)), (String ((Ascii (true, true, true,
    true, true, false, true, false)), (String ((Ascii (false, false, false,
    false, true, true, true, false)), (String ((Ascii (true, false, false,
    false, false, true, true, false)), (String ((Ascii (false, true, false,
    false, true, true, true, false)), (String ((Ascii (true, false, false,
    false, false, true, true, false)), (String ((Ascii (true, false, true,
    true, false, true, true, false)), (String ((Ascii (true, false, true,
    false, false, true, true, false)), (String ((Ascii (false, false, true,
    false, true, true, true, false)), (String ((Ascii (true, false, true,
    false, false, true, true, false)), (String ((Ascii (false, true, false,
    false, true, true, true, false)), (String ((Ascii (true, true, false,
    false, true, true, true, false)),
    EmptyString)))))))))))))))))))))))))))))))))))))),
    (e parse_ec_parameters sx_ecp)) :: (((String ((Ascii (false, false,
    false, false, true, true, true, false)), (String ((Ascii (true, false,
    false, false, false, true, true, false)), (String ((Ascii (false, true,
    false, false, true, true, true, false)), (String ((Ascii (true, true,
    false, false, true, true, true, false)), (String ((Ascii (true, false,
    true, false, false, true, true, false)), (String ((Ascii (true, true,
    true, true, true, false, true, false)), (String ((Ascii (true, false,
    true, false, false, true, true, false)), (String ((Ascii (true, true,
    false, false, false, true, true, false)), (String ((Ascii (false, false,
    true, false, false, true, true, false)), (String ((Ascii (false, false,
    false, true, false, true, true, false)), (String ((Ascii (true, true,
    true, true, true, false, true, false)), (String ((Ascii (false, false,
    false, false, true, true, true, false)), (String ((Ascii (true, false,
    false, false, false, true, true, false)), (String ((Ascii (false, true,
    false, false, true, true, true, false)), (String ((Ascii (true, false,
    false, false, false, true, true, false)), (String ((Ascii (true, false,
    true, true, false, true, true, false)), (String ((Ascii (true, true,
    false, false, true, true, true, false)),
    EmptyString)))))))))))))))))))))))))))))))))),
    (e parse_ecdh_params sx_ecdh)) :: (((String ((Ascii (false, false, false,
    false, true, true, true, false)), (String ((Ascii (true, false, false,
    false, false, true, true, false)), (String ((Ascii (false, true, false,
    false, true, true, true, false)), (String ((Ascii (true, true, false,
    false, true, true, true, false)), (String ((Ascii (true, false, true,
    false, false, true, true, false)), (String ((Ascii (true, true, true,
    true, true, false, true, false)), (String ((Ascii (false, false, true,
    false, false, true, true, false)), (String ((Ascii (true, false, false,
    true, false, true, true, false)), (String ((Ascii (true, true, true,
    false, false, true, true, false)), (String ((Ascii (true, false, false,
    true, false, true, true, false)), (String ((Ascii (false, false, true,
    false, true, true, true, false)), (String ((Ascii (true, false, false,
    false, false, true, true, false)), (String ((Ascii (false, false, true,
    true, false, true, true, false)), (String ((Ascii (false, false, true,
    true, false, true, true, false)), (String ((Ascii (true, false, false,
    true, true, true, true, false)), (String ((Ascii (true, true, true, true,
    true, false, true, false)), (String ((Ascii (true, true, false, false,
    true, true, true, false)), (String ((Ascii (true, false, false, true,
    false, true, true, false)), (String ((Ascii (true, true, true, false,
    false, true, true, false)), (String ((Ascii (false, true, true, true,
    false, true, true, false)), (String ((Ascii (true, false, true, false,
    false, true, true, false)), (String ((Ascii (false, false, true, false,
    false, true, true, false)), (String ((Ascii (true, true, true, true,
    true, false, true, false)), (String ((Ascii (true, true, true, true,
    false, true, true, false)), (String ((Ascii (false, false, true, true,
    false, true, true, false)), (String ((Ascii (false, false, true, false,
    false, true, true, false)),
    EmptyString)))))))))))))))))))))))))))))))))))))))))))))))))))),
    (e parse_digitally_signed_old sx_ds)) :: (((String ((Ascii (false, false,
    false, false, true, true, true, false)), (String ((Ascii (true, false,
    false, false, false, true, true, false)), (String ((Ascii (false, true,
    false, false, true, true, true, false)), (String ((Ascii (true, true,
    false, false, true, true, true, false)), (String ((Ascii (true, false,
    true, false, false, true, true, false)), (String ((Ascii (true, true,
    true, true, true, false, true, false)), (String ((Ascii (false, false,
    true, false, false, true, true, false)), (String ((Ascii (true, false,
    false, true, false, true, true, false)), (String ((Ascii (true, true,
    true, false, false, true, true, false)), (String ((Ascii (true, false,
    false, true, false, true, true, false)), (String ((Ascii (false, false,
    true, false, true, true, true, false)), (String ((Ascii (true, false,
    false, false, false, true, true, false)), (String ((Ascii (false, false,
    true, true, false, true, true, false)), (String ((Ascii (false, false,
    true, true, false, true, true, false)), (String ((Ascii (true, false,
    false, true, true, true, true, false)), (String ((Ascii (true, true,
    true, true, true, false, true, false)), (String ((Ascii (true, true,
    false, false, true, true, true, false)), (String ((Ascii (true, false,
    false, true, false, true, true, false)), (String ((Ascii (true, true,
    true, false, false, true, true, false)), (String ((Ascii (false, true,
    true, true, false, true, true, false)), (String ((Ascii (true, false,
    true, false, false, true, true, false)), (String ((Ascii (false, false,
    true, false, false, true, true, false)),
    EmptyString)))))))))))))))))))))))))))))))))))))))))))),
    (e parse_digitally_signed sx_ds)) :: (((String ((Ascii (false, false,
    false, false, true, true, true, false)), (String ((Ascii (true, false,
    false, false, false, true, true, false)), (String ((Ascii (false, true,
    false, false, true, true, true, false)), (String ((Ascii (true, true,
    false, false, true, true, true, false)), (String ((Ascii (true, false,
    true, false, false, true, true, false)), (String ((Ascii (true, true,
    true, true, true, false, true, false)), (String ((Ascii (true, true,
    false, false, false, true, true, false)), (String ((Ascii (true, true,
    true, true, false, true, true, false)), (String ((Ascii (false, true,
    true, true, false, true, true, false)), (String ((Ascii (false, false,
    true, false, true, true, true, false)), (String ((Ascii (true, false,
    true, false, false, true, true, false)), (String ((Ascii (false, true,
    true, true, false, true, true, false)), (String ((Ascii (false, false,
    true, false, true, true, true, false)), (String ((Ascii (true, true,
    true, true, true, false, true, false)), (String ((Ascii (true, false,
    false, false, false, true, true, false)), (String ((Ascii (false, true,
    true, true, false, true, true, false)), (String ((Ascii (false, false,
    true, false, false, true, true, false)), (String ((Ascii (true, true,
    true, true, true, false, true, false)), (String ((Ascii (true, true,
    false, false, true, true, true, false)), (String ((Ascii (true, false,
    false, true, false, true, true, false)), (String ((Ascii (true, true,
    true, false, false, true, true, false)), (String ((Ascii (false, true,
    true, true, false, true, true, false)), (String ((Ascii (true, false,
    false, false, false, true, true, false)), (String ((Ascii (false, false,
    true, false, true, true, true, false)), (String ((Ascii (true, false,
    true, false, true, true, true, false)), (String ((Ascii (false, true,
    false, false, true, true, true, false)), (String ((Ascii (true, false,
    true, false, false, true, true, false)), (String ((Ascii (true, true,
    true, true, true, false, true, false)), (String ((Ascii (false, false,
    true, false, false, true, true, false)), (String ((Ascii (false, false,
    false, true, false, true, true, false)),
    EmptyString)))))))))))))))))))))))))))))))))))))))))))))))))))))))))))),
    (eb (parse_content_and_signature parse_dh_params) (fun p0 ->
      c EmptyString ((sx_dh (fst p0)) :: ((sx_ds (snd p0)) :: []))))) :: (((String
    ((Ascii (false, false, false, false, true, true, true, false)), (String
    ((Ascii (true, false, false, false, false, true, true, false)), (String
    ((Ascii (false, true, false, false, true, true, true, false)), (String
    ((Ascii (true, true, false, false, true, true, true, false)), (String
    ((Ascii (true, false, true, false, false, true, true, false)), (String
    ((Ascii (true, true, true, true, true, false, true, false)), (String
    ((Ascii (true, true, false, false, false, true, true, false)), (String
    ((Ascii (true, true, true, true, false, true, true, false)), (String
    ((Ascii (false, true, true, true, false, true, true, false)), (String
    ((Ascii (false, false, true, false, true, true, true, false)), (String
    ((Ascii (true, false, true, false, false, true, true, false)), (String
    ((Ascii (false, true, true, true, false, true, true, false)), (String
    ((Ascii (false, false, true, false, true, true, true, false)), (String
    ((Ascii (true, true, true, true, true, false, true, false)), (String
    ((Ascii (true, false, false, false, false, true, true, false)), (String
    ((Ascii (false, true, true, true, false, true, true, false)), (String
    ((Ascii (false, false, true, false, false, true, true, false)), (String
    ((Ascii (true, true, true, true, true, false, true, false)), (String
    ((Ascii (true, true, false, false, true, true, true, false)), (String
    ((Ascii (true, false, false, true, false, true, true, false)), (String
    ((Ascii (true, true, true, false, false, true, true, false)), (String
    ((Ascii (false, true, true, true, false, true, true, false)), (String
    ((Ascii (true, false, false, false, false, true, true, false)), (String
    ((Ascii (false, false, true, false, true, true, true, false)), (String
    ((Ascii (true, false, true, false, true, true, true, false)), (String
    ((Ascii (false, true, false, false, true, true, true, false)), (String
    ((Ascii (true, false, true, false, false, true, true, false)), (String
    ((Ascii (true, true, true, true, true, false, true, false)), (String
    ((Ascii (true, false, true, false, false, true, true, false)), (String
    ((Ascii (true, true, false, false, false, true, true, false)), (String
    ((Ascii (false, false, true, false, false, true, true, false)), (String
    ((Ascii (false, false, false, true, false, true, true, false)),
    EmptyString)))))))))))))))))))))))))))))))))))))))))))))))))))))))))))))))),
    (eb (parse_content_and_signature parse_ecdh_params) (fun p0 ->
      c EmptyString ((sx_ecdh (fst p0)) :: ((sx_ds (snd p0)) :: []))))) :: (((String
    ((Ascii (false, false, false, false, true, true, true, false)), (String
    ((Ascii (true, false, false, false, false, true, true, false)), (String
    ((Ascii (false, true, false, false, true, true, true, false)), (String
    ((Ascii (true, true, false, false, true, true, true, false)), (String
    ((Ascii (true, false, true, false, false, true, true, false)), (String
    ((Ascii (true, true, true, true, true, false, true, false)), (String
    ((Ascii (true, true, false, false, false, true, true, false)), (String
    ((Ascii (false, false, true, false, true, true, true, false)), (String
    ((Ascii (true, true, true, true, true, false, true, false)), (String
    ((Ascii (true, true, false, false, true, true, true, false)), (String
    ((Ascii (true, false, false, true, false, true, true, false)), (String
    ((Ascii (true, true, true, false, false, true, true, false)), (String
    ((Ascii (false, true, true, true, false, true, true, false)), (String
    ((Ascii (true, false, true, false, false, true, true, false)), (String
    ((Ascii (false, false, true, false, false, true, true, false)), (String
    ((Ascii (true, true, true, true, true, false, true, false)), (String
    ((Ascii (true, true, false, false, false, true, true, false)), (String
    ((Ascii (true, false, true, false, false, true, true, false)), (String
    ((Ascii (false, true, false, false, true, true, true, false)), (String
    ((Ascii (false, false, true, false, true, true, true, false)), (String
    ((Ascii (true, false, false, true, false, true, true, false)), (String
    ((Ascii (false, true, true, false, false, true, true, false)), (String
    ((Ascii (true, false, false, true, false, true, true, false)), (String
    ((Ascii (true, true, false, false, false, true, true, false)), (String
    ((Ascii (true, false, false, false, false, true, true, false)), (String
    ((Ascii (false, false, true, false, true, true, true, false)), (String
    ((Ascii (true, false, true, false, false, true, true, false)), (String
    ((Ascii (true, true, true, true, true, false, true, false)), (String
    ((Ascii (false, false, true, false, true, true, true, false)), (String
    ((Ascii (true, false, false, true, false, true, true, false)), (String
    ((Ascii (true, false, true, true, false, true, true, false)), (String
    ((Ascii (true, false, true, false, false, true, true, false)), (String
    ((Ascii (true, true, false, false, true, true, true, false)), (String
    ((Ascii (false, false, true, false, true, true, true, false)), (String
    ((Ascii (true, false, false, false, false, true, true, false)), (String
    ((Ascii (true, false, true, true, false, true, true, false)), (String
    ((Ascii (false, false, false, false, true, true, true, false)),
    EmptyString)))))))))))))))))))))))))))))))))))))))))))))))))))))))))))))))))))))))))),
    (e parse_ct_signed_certificate_timestamp sx_sct)) :: (((String ((Ascii
    (false, false, false, false, true, true, true, false)), (String ((Ascii
    (true, false, false, false, false, true, true, false)), (String ((Ascii
    (false, true, false, false, true, true, true, false)), (String ((Ascii
    (true, true, false, false, true, true, true, false)), (String ((Ascii
    (true, false, true, false, false, true, true, false)), (String ((Ascii
    (true, true, true, true, true, false, true, false)), (String ((Ascii
    (true, true, false, false, false, true, true, false)), (String ((Ascii
    (false, false, true, false, true, true, true, false)), (String ((Ascii
    (true, true, true, true, true, false, true, false)), (String ((Ascii
    (true, true, false, false, true, true, true, false)), (String ((Ascii
    (true, false, false, true, false, true, true, false)), (String ((Ascii
    (true, true, true, false, false, true, true, false)), (String ((Ascii
    (false, true, true, true, false, true, true, false)), (String ((Ascii
    (true, false, true, false, false, true, true, false)), (String ((Ascii
    (false, false, true, false, false, true, true, false)), (String ((Ascii
    (true, true, true, true, true, false, true, false)), (String ((Ascii
    (true, true, false, false, false, true, true, false)), (String ((Ascii
    (true, false, true, false, false, true, true, false)), (String ((Ascii
    (false, true, false, false, true, true, true, false)), (String ((Ascii
    (false, false, true, false, true, true, true, false)), (String ((Ascii
    (true, false, false, true, false, true, true, false)), (String ((Ascii
    (false, true, true, false, false, true, true, false)), (String ((Ascii
    (true, false, false, true, false, true, true, false)), (String ((Ascii
    (true, true, false, false, false, true, true, false)), (String ((Ascii
    (true, false, false, false, false, true, true, false)), (String ((Ascii
    (false, false, true, false, true, true, true, false)), (String ((Ascii
    (true, false, true, false, false, true, true, false)), (String ((Ascii
    (true, true, true, true, true, false, true, false)), (String ((Ascii
    (false, false, true, false, true, true, true, false)), (String ((Ascii
    (true, false, false, true, false, true, true, false)), (String ((Ascii
    (true, false, true, true, false, true, true, false)), (String ((Ascii
    (true, false, true, false, false, true, true, false)), (String ((Ascii
    (true, true, false, false, true, true, true, false)), (String ((Ascii
    (false, false, true, false, true, true, true, false)), (String ((Ascii
    (true, false, false, false, false, true, true, false)), (String ((Ascii
    (true, false, true, true, false, true, true, false)), (String ((Ascii
    (false, false, false, false, true, true, true, false)), (String ((Ascii
    (true, true, true, true, true, false, true, false)), (String ((Ascii
    (false, false, true, true, false, true, true, false)), (String ((Ascii
    (true, false, false, true, false, true, true, false)), (String ((Ascii
    (true, true, false, false, true, true, true, false)), (String ((Ascii
    (false, false, true, false, true, true, true, false)),
    EmptyString)))))))))))))))))))))))))))))))))))))))))))))))))))))))))))))))))))))))))))))))))))),
    (e parse_ct_signed_certificate_timestamp_list (slist sx_sct))) :: (((String
    ((Ascii (true, false, true, false, false, false, true, false)), (String
    ((Ascii (true, true, false, false, false, false, true, false)), (String
    ((Ascii (false, false, false, false, true, false, true, false)), (String
    ((Ascii (true, true, true, true, false, true, true, false)), (String
    ((Ascii (true, false, false, true, false, true, true, false)), (String
    ((Ascii (false, true, true, true, false, true, true, false)), (String
    ((Ascii (false, false, true, false, true, true, true, false)), (String
    ((Ascii (false, true, false, true, true, true, false, false)), (String
    ((Ascii (false, true, false, true, true, true, false, false)), (String
    ((Ascii (false, false, false, false, true, true, true, false)), (String
    ((Ascii (true, false, false, false, false, true, true, false)), (String
    ((Ascii (false, true, false, false, true, true, true, false)), (String
    ((Ascii (true, true, false, false, true, true, true, false)), (String
    ((Ascii (true, false, true, false, false, true, true, false)),
    EmptyString)))))))))))))))))))))))))))),
    (e parse_ec_point (fun x -> SS x))) :: (((String ((Ascii (true, false,
    true, false, false, false, true, false)), (String ((Ascii (true, true,
    false, false, false, false, true, false)), (String ((Ascii (true, true,
    false, false, false, false, true, false)), (String ((Ascii (true, false,
    true, false, true, true, true, false)), (String ((Ascii (false, true,
    false, false, true, true, true, false)), (String ((Ascii (false, true,
    true, false, true, true, true, false)), (String ((Ascii (true, false,
    true, false, false, true, true, false)), (String ((Ascii (false, true,
    false, true, true, true, false, false)), (String ((Ascii (false, true,
    false, true, true, true, false, false)), (String ((Ascii (false, false,
    false, false, true, true, true, false)), (String ((Ascii (true, false,
    false, false, false, true, true, false)), (String ((Ascii (false, true,
    false, false, true, true, true, false)), (String ((Ascii (true, true,
    false, false, true, true, true, false)), (String ((Ascii (true, false,
    true, false, false, true, true, false)),
    EmptyString)))))))))))))))))))))))))))),
    (e parse_ec_curve sx_pair_ss)) :: (((String ((Ascii (true, false, true,
    false, false, false, true, false)), (String ((Ascii (false, false, false,
    true, true, true, true, false)), (String ((Ascii (false, false, false,
    false, true, true, true, false)), (String ((Ascii (false, false, true,
    true, false, true, true, false)), (String ((Ascii (true, false, false,
    true, false, true, true, false)), (String ((Ascii (true, true, false,
    false, false, true, true, false)), (String ((Ascii (true, false, false,
    true, false, true, true, false)), (String ((Ascii (false, false, true,
    false, true, true, true, false)), (String ((Ascii (false, false, false,
    false, true, false, true, false)), (String ((Ascii (false, true, false,
    false, true, true, true, false)), (String ((Ascii (true, false, false,
    true, false, true, true, false)), (String ((Ascii (true, false, true,
    true, false, true, true, false)), (String ((Ascii (true, false, true,
    false, false, true, true, false)), (String ((Ascii (true, true, false,
    false, false, false, true, false)), (String ((Ascii (true, true, true,
    true, false, true, true, false)), (String ((Ascii (false, true, true,
    true, false, true, true, false)), (String ((Ascii (false, false, true,
    false, true, true, true, false)), (String ((Ascii (true, false, true,
    false, false, true, true, false)), (String ((Ascii (false, true, true,
    true, false, true, true, false)), (String ((Ascii (false, false, true,
    false, true, true, true, false)), (String ((Ascii (false, true, false,
    true, true, true, false, false)), (String ((Ascii (false, true, false,
    true, true, true, false, false)), (String ((Ascii (false, false, false,
    false, true, true, true, false)), (String ((Ascii (true, false, false,
    false, false, true, true, false)), (String ((Ascii (false, true, false,
    false, true, true, true, false)), (String ((Ascii (true, true, false,
    false, true, true, true, false)), (String ((Ascii (true, false, true,
    false, false, true, true, false)),
    EmptyString)))))))))))))))))))))))))))))))))))))))))))))))))))))),
    (e parse_explicit_prime (fun c0 -> sx_ecc (EcExplicitPrime c0)))) :: (((String
    ((Ascii (true, false, true, false, false, false, true, false)), (String
    ((Ascii (true, true, false, false, false, false, true, false)), (String
    ((Ascii (false, false, false, false, true, false, true, false)), (String
    ((Ascii (true, false, false, false, false, true, true, false)), (String
    ((Ascii (false, true, false, false, true, true, true, false)), (String
    ((Ascii (true, false, false, false, false, true, true, false)), (String
    ((Ascii (true, false, true, true, false, true, true, false)), (String
    ((Ascii (true, false, true, false, false, true, true, false)), (String
    ((Ascii (false, false, true, false, true, true, true, false)), (String
    ((Ascii (true, false, true, false, false, true, true, false)), (String
    ((Ascii (false, true, false, false, true, true, true, false)), (String
    ((Ascii (true, true, false, false, true, true, true, false)), (String
    ((Ascii (true, true, false, false, false, false, true, false)), (String
    ((Ascii (true, true, true, true, false, true, true, false)), (String
    ((Ascii (false, true, true, true, false, true, true, false)), (String
    ((Ascii (false, false, true, false, true, true, true, false)), (String
    ((Ascii (true, false, true, false, false, true, true, false)), (String
    ((Ascii (false, true, true, true, false, true, true, false)), (String
    ((Ascii (false, false, true, false, true, true, true, false)), (String
    ((Ascii (false, true, false, true, true, true, false, false)), (String
    ((Ascii (false, true, false, true, true, true, false, false)), (String
    ((Ascii (false, false, false, false, true, true, true, false)), (String
    ((Ascii (true, false, false, false, false, true, true, false)), (String
    ((Ascii (false, true, false, false, true, true, true, false)), (String
    ((Ascii (true, true, false, false, true, true, true, false)), (String
    ((Ascii (true, false, true, false, false, true, true, false)),
    EmptyString)))))))))))))))))))))))))))))))))))))))))))))))))))),
    (e1 parse_ec_parameters_content sx_ecc)) :: []))))))))))))

(** val entries_dtls : (string * entry_fn) list **)

let entries_dtls =
  ((String ((Ascii (false, false, false, false, true, true, true, false)),
    (String ((Ascii (true, false, false, false, false, true, true, false)),
    (String ((Ascii (false, true, false, false, true, true, true, false)),
    (String ((Ascii (true, true, false, false, true, true, true, false)),
    (String ((Ascii (true, false, true, false, false, true, true, false)),
    (String ((Ascii (true, true, true, true, true, false, true, false)),
    (String ((Ascii (false, false, true, false, false, true, true, false)),
    (String ((Ascii (false, false, true, false, true, true, true, false)),
    (String ((Ascii (false, false, true, true, false, true, true, false)),
    (String ((Ascii (true, true, false, false, true, true, true, false)),
    (String ((Ascii (true, true, true, true, true, false, true, false)),
    (String ((Ascii (false, true, false, false, true, true, true, false)),
    (String ((Ascii (true, false, true, false, false, true, true, false)),
    (String ((Ascii (true, true, false, false, false, true, true, false)),
    (String ((Ascii (true, true, true, true, false, true, true, false)),
    (String ((Ascii (false, true, false, false, true, true, true, false)),
    (String ((Ascii (false, false, true, false, false, true, true, false)),
    (String ((Ascii (true, true, true, true, true, false, true, false)),
    (String ((Ascii (false, false, false, true, false, true, true, false)),
    (String ((Ascii (true, false, true, false, false, true, true, false)),
    (String ((Ascii (true, false, false, false, false, true, true, false)),
    (String ((Ascii (false, false, true, false, false, true, true, false)),
    (String ((Ascii (true, false, true, false, false, true, true, false)),
    (String ((Ascii (false, true, false, false, true, true, true, false)),
    EmptyString)))))))))))))))))))))))))))))))))))))))))))))))),
    (e parse_dtls_record_header sx_dhdr)) :: (((String ((Ascii (false, false,
    false, false, true, true, true, false)), (String ((Ascii (true, false,
    false, false, false, true, true, false)), (String ((Ascii (false, true,
    false, false, true, true, true, false)), (String ((Ascii (true, true,
    false, false, true, true, true, false)), (String ((Ascii (true, false,
    true, false, false, true, true, false)), (String ((Ascii (true, true,
    true, true, true, false, true, false)), (String ((Ascii (false, false,
    true, false, false, true, true, false)), (String ((Ascii (false, false,
    true, false, true, true, true, false)), (String ((Ascii (false, false,
    true, true, false, true, true, false)), (String ((Ascii (true, true,
    false, false, true, true, true, false)), (String ((Ascii (true, true,
    true, true, true, false, true, false)), (String ((Ascii (true, false,
    true, true, false, true, true, false)), (String ((Ascii (true, false,
    true, false, false, true, true, false)), (String ((Ascii (true, true,
    false, false, true, true, true, false)), (String ((Ascii (true, true,
    false, false, true, true, true, false)), (String ((Ascii (true, false,
    false, false, false, true, true, false)), (String ((Ascii (true, true,
    true, false, false, true, true, false)), (String ((Ascii (true, false,
    true, false, false, true, true, false)), (String ((Ascii (true, true,
    true, true, true, false, true, false)), (String ((Ascii (false, false,
    false, true, false, true, true, false)), (String ((Ascii (true, false,
    false, false, false, true, true, false)), (String ((Ascii (false, true,
    true, true, false, true, true, false)), (String ((Ascii (false, false,
    true, false, false, true, true, false)), (String ((Ascii (true, true,
    false, false, true, true, true, false)), (String ((Ascii (false, false,
    false, true, false, true, true, false)), (String ((Ascii (true, false,
    false, false, false, true, true, false)), (String ((Ascii (true, true,
    false, true, false, true, true, false)), (String ((Ascii (true, false,
    true, false, false, true, true, false)),
    EmptyString)))))))))))))))))))))))))))))))))))))))))))))))))))))))),
    (e parse_dtls_message_handshake sx_dmsg)) :: (((String ((Ascii (false,
    false, false, false, true, true, true, false)), (String ((Ascii (true,
    false, false, false, false, true, true, false)), (String ((Ascii (false,
    true, false, false, true, true, true, false)), (String ((Ascii (true,
    true, false, false, true, true, true, false)), (String ((Ascii (true,
    false, true, false, false, true, true, false)), (String ((Ascii (true,
    true, true, true, true, false, true, false)), (String ((Ascii (false,
    false, true, false, false, true, true, false)), (String ((Ascii (false,
    false, true, false, true, true, true, false)), (String ((Ascii (false,
    false, true, true, false, true, true, false)), (String ((Ascii (true,
    true, false, false, true, true, true, false)), (String ((Ascii (true,
    true, true, true, true, false, true, false)), (String ((Ascii (true,
    false, true, true, false, true, true, false)), (String ((Ascii (true,
    false, true, false, false, true, true, false)), (String ((Ascii (true,
    true, false, false, true, true, true, false)), (String ((Ascii (true,
    true, false, false, true, true, true, false)), (String ((Ascii (true,
    false, false, false, false, true, true, false)), (String ((Ascii (true,
    true, true, false, false, true, true, false)), (String ((Ascii (true,
    false, true, false, false, true, true, false)), (String ((Ascii (true,
    true, true, true, true, false, true, false)), (String ((Ascii (true,
    true, false, false, false, true, true, false)), (String ((Ascii (false,
    false, false, true, false, true, true, false)), (String ((Ascii (true,
    false, false, false, false, true, true, false)), (String ((Ascii (false,
    true, true, true, false, true, true, false)), (String ((Ascii (true,
    true, true, false, false, true, true, false)), (String ((Ascii (true,
    false, true, false, false, true, true, false)), (String ((Ascii (true,
    true, false, false, false, true, true, false)), (String ((Ascii (true,
    false, false, true, false, true, true, false)), (String ((Ascii (false,
    false, false, false, true, true, true, false)), (String ((Ascii (false,
    false, false, true, false, true, true, false)), (String ((Ascii (true,
    false, true, false, false, true, true, false)), (String ((Ascii (false,
    true, false, false, true, true, true, false)), (String ((Ascii (true,
    true, false, false, true, true, true, false)), (String ((Ascii (false,
    false, false, false, true, true, true, false)), (String ((Ascii (true,
    false, true, false, false, true, true, false)), (String ((Ascii (true,
    true, false, false, false, true, true, false)),
    EmptyString)))))))))))))))))))))))))))))))))))))))))))))))))))))))))))))))))))))),
    (e parse_dtls_message_changecipherspec sx_dmsg)) :: (((String ((Ascii
    (false, false, false, false, true, true, true, false)), (String ((Ascii
    (true, false, false, false, false, true, true, false)), (String ((Ascii
    (false, true, false, false, true, true, true, false)), (String ((Ascii
    (true, true, false, false, true, true, true, false)), (String ((Ascii
    (true, false, true, false, false, true, true, false)), (String ((Ascii
    (true, true, true, true, true, false, true, false)), (String ((Ascii
    (false, false, true, false, false, true, true, false)), (String ((Ascii
    (false, false, true, false, true, true, true, false)), (String ((Ascii
    (false, false, true, true, false, true, true, false)), (String ((Ascii
    (true, true, false, false, true, true, true, false)), (String ((Ascii
    (true, true, true, true, true, false, true, false)), (String ((Ascii
    (true, false, true, true, false, true, true, false)), (String ((Ascii
    (true, false, true, false, false, true, true, false)), (String ((Ascii
    (true, true, false, false, true, true, true, false)), (String ((Ascii
    (true, true, false, false, true, true, true, false)), (String ((Ascii
    (true, false, false, false, false, true, true, false)), (String ((Ascii
    (true, true, true, false, false, true, true, false)), (String ((Ascii
    (true, false, true, false, false, true, true, false)), (String ((Ascii
    (true, true, true, true, true, false, true, false)), (String ((Ascii
    (true, false, false, false, false, true, true, false)), (String ((Ascii
    (false, false, true, true, false, true, true, false)), (String ((Ascii
    (true, false, true, false, false, true, true, false)), (String ((Ascii
    (false, true, false, false, true, true, true, false)), (String ((Ascii
    (false, false, true, false, true, true, true, false)),
    EmptyString)))))))))))))))))))))))))))))))))))))))))))))))),
    (e parse_dtls_message_alert sx_dmsg)) :: (((String ((Ascii (false, false,
    false, false, true, true, true, false)), (String ((Ascii (true, false,
    false, false, false, true, true, false)), (String ((Ascii (false, true,
    false, false, true, true, true, false)), (String ((Ascii (true, true,
    false, false, true, true, true, false)), (String ((Ascii (true, false,
    true, false, false, true, true, false)), (String ((Ascii (true, true,
    true, true, true, false, true, false)), (String ((Ascii (false, false,
    true, false, false, true, true, false)), (String ((Ascii (false, false,
    true, false, true, true, true, false)), (String ((Ascii (false, false,
    true, true, false, true, true, false)), (String ((Ascii (true, true,
    false, false, true, true, true, false)), (String ((Ascii (true, true,
    true, true, true, false, true, false)), (String ((Ascii (false, true,
    false, false, true, true, true, false)), (String ((Ascii (true, false,
    true, false, false, true, true, false)), (String ((Ascii (true, true,
    false, false, false, true, true, false)), (String ((Ascii (true, true,
    true, true, false, true, true, false)), (String ((Ascii (false, true,
    false, false, true, true, true, false)), (String ((Ascii (false, false,
    true, false, false, true, true, false)), (String ((Ascii (true, true,
    true, true, true, false, true, false)), (String ((Ascii (true, true,
    true, false, true, true, true, false)), (String ((Ascii (true, false,
    false, true, false, true, true, false)), (String ((Ascii (false, false,
    true, false, true, true, true, false)), (String ((Ascii (false, false,
    false, true, false, true, true, false)), (String ((Ascii (true, true,
    true, true, true, false, true, false)), (String ((Ascii (false, false,
    false, true, false, true, true, false)), (String ((Ascii (true, false,
    true, false, false, true, true, false)), (String ((Ascii (true, false,
    false, false, false, true, true, false)), (String ((Ascii (false, false,
    true, false, false, true, true, false)), (String ((Ascii (true, false,
    true, false, false, true, true, false)), (String ((Ascii (false, true,
    false, false, true, true, true, false)),
    EmptyString)))))))))))))))))))))))))))))))))))))))))))))))))))))))))),
    (e3d parse_dtls_record_with_header (slist sx_dmsg))) :: (((String ((Ascii
    (false, false, false, false, true, true, true, false)), (String ((Ascii
    (true, false, false, false, false, true, true, false)), (String ((Ascii
    (false, true, false, false, true, true, true, false)), (String ((Ascii
    (true, true, false, false, true, true, true, false)), (String ((Ascii
    (true, false, true, false, false, true, true, false)), (String ((Ascii
    (true, true, true, true, true, false, true, false)), (String ((Ascii
    (false, false, true, false, false, true, true, false)), (String ((Ascii
    (false, false, true, false, true, true, true, false)), (String ((Ascii
    (false, false, true, true, false, true, true, false)), (String ((Ascii
    (true, true, false, false, true, true, true, false)), (String ((Ascii
    (true, true, true, true, true, false, true, false)), (String ((Ascii
    (false, false, false, false, true, true, true, false)), (String ((Ascii
    (false, false, true, true, false, true, true, false)), (String ((Ascii
    (true, false, false, false, false, true, true, false)), (String ((Ascii
    (true, false, false, true, false, true, true, false)), (String ((Ascii
    (false, true, true, true, false, true, true, false)), (String ((Ascii
    (false, false, true, false, true, true, true, false)), (String ((Ascii
    (true, false, true, false, false, true, true, false)), (String ((Ascii
    (false, false, false, true, true, true, true, false)), (String ((Ascii
    (false, false, true, false, true, true, true, false)), (String ((Ascii
    (true, true, true, true, true, false, true, false)), (String ((Ascii
    (false, true, false, false, true, true, true, false)), (String ((Ascii
    (true, false, true, false, false, true, true, false)), (String ((Ascii
    (true, true, false, false, false, true, true, false)), (String ((Ascii
    (true, true, true, true, false, true, true, false)), (String ((Ascii
    (false, true, false, false, true, true, true, false)), (String ((Ascii
    (false, false, true, false, false, true, true, false)),
    EmptyString)))))))))))))))))))))))))))))))))))))))))))))))))))))),
    (e parse_dtls_plaintext_record sx_dplain)) :: (((String ((Ascii (false,
    false, false, false, true, true, true, false)), (String ((Ascii (true,
    false, false, false, false, true, true, false)), (String ((Ascii (false,
    true, false, false, true, true, true, false)), (String ((Ascii (true,
    true, false, false, true, true, true, false)), (String ((Ascii (true,
    false, true, false, false, true, true, false)), (String ((Ascii (true,
    true, true, true, true, false, true, false)), (String ((Ascii (false,
    false, true, false, false, true, true, false)), (String ((Ascii (false,
    false, true, false, true, true, true, false)), (String ((Ascii (false,
    false, true, true, false, true, true, false)), (String ((Ascii (true,
    true, false, false, true, true, true, false)), (String ((Ascii (true,
    true, true, true, true, false, true, false)), (String ((Ascii (false,
    false, false, false, true, true, true, false)), (String ((Ascii (false,
    false, true, true, false, true, true, false)), (String ((Ascii (true,
    false, false, false, false, true, true, false)), (String ((Ascii (true,
    false, false, true, false, true, true, false)), (String ((Ascii (false,
    true, true, true, false, true, true, false)), (String ((Ascii (false,
    false, true, false, true, true, true, false)), (String ((Ascii (true,
    false, true, false, false, true, true, false)), (String ((Ascii (false,
    false, false, true, true, true, true, false)), (String ((Ascii (false,
    false, true, false, true, true, true, false)), (String ((Ascii (true,
    true, true, true, true, false, true, false)), (String ((Ascii (false,
    true, false, false, true, true, true, false)), (String ((Ascii (true,
    false, true, false, false, true, true, false)), (String ((Ascii (true,
    true, false, false, false, true, true, false)), (String ((Ascii (true,
    true, true, true, false, true, true, false)), (String ((Ascii (false,
    true, false, false, true, true, true, false)), (String ((Ascii (false,
    false, true, false, false, true, true, false)), (String ((Ascii (true,
    true, false, false, true, true, true, false)),
    EmptyString)))))))))))))))))))))))))))))))))))))))))))))))))))))))),
    (e parse_dtls_plaintext_records (slist sx_dplain))) :: []))))))

(** val rECORD_CAP : n **)

let rECORD_CAP =
  N.add (N.pow (Npos (XO XH)) (Npos (XO (XI (XI XH))))) (Npos (XO (XO (XO (XO
    (XO (XO (XO (XO XH)))))))))

(** val hdr_need : n -> n **)

let hdr_need n0 =
  if N.eqb n0 N0
  then Npos XH
  else if N.eqb n0 (Npos XH)
       then Npos (XO XH)
       else if N.eqb n0 (Npos (XO XH))
            then Npos XH
            else if N.eqb n0 (Npos (XI XH)) then Npos (XO XH) else Npos XH

type framing =
| FrIncomplete of n
| FrTooLarge of slice
| FrOk of tlsRecordHeader * slice * slice

(** val framing_spec : slice -> framing **)

let framing_spec i =
  let b = i.bytes in
  let n0 = lenN b in
  if N.ltb n0 (Npos (XI (XO XH)))
  then FrIncomplete (hdr_need n0)
  else let ty = be_val (takeN b (Npos XH)) in
       let ver = be_val (takeN (dropN b (Npos XH)) (Npos (XO XH))) in
       let len = be_val (takeN (dropN b (Npos (XI XH))) (Npos (XO XH))) in
       if N.ltb rECORD_CAP len
       then FrTooLarge (sdrop i (Npos (XI (XO XH))))
       else if N.ltb n0 (N.add (Npos (XI (XO XH))) len)
            then FrIncomplete (N.sub (N.add (Npos (XI (XO XH))) len) n0)
            else FrOk ({ h_type = ty; h_version = ver; h_len = len }, { off =
                   (N.add i.off (Npos (XI (XO XH)))); bytes =
                   (takeN (dropN b (Npos (XI (XO XH)))) len) },
                   (sdrop i (N.add (Npos (XI (XO XH))) len)))

(** val framing_spec_raw : slice -> tlsRawRecord res **)

let framing_spec_raw i =
  match framing_spec i with
  | FrIncomplete m -> Incomplete (Size m)
  | FrTooLarge s -> Err (s, KTooLarge)
  | FrOk (h, p0, r) -> Ok (r, { r_hdr = h; r_data = p0 })

(** val framing_spec_enc : slice -> tlsEncrypted res **)

let framing_spec_enc i =
  match framing_spec i with
  | FrIncomplete m -> Incomplete (Size m)
  | FrTooLarge s -> Err (s, KTooLarge)
  | FrOk (h, p0, r) -> Ok (r, { e_hdr = h; e_blob = p0 })

(** val spec_exact : ('a1 -> sx) -> 'a1 res -> byte list **)

let spec_exact f r =
  app
    (str (String ((Ascii (true, false, true, true, true, true, false,
      false)), (String ((Ascii (false, false, false, false, false, true,
      false, false)), EmptyString))))) (show_res f r)

(** val spec_entries_tls : (string * entry_fn) list **)

let spec_entries_tls =
  ((String ((Ascii (true, true, false, false, true, true, true, false)),
    (String ((Ascii (false, false, false, false, true, true, true, false)),
    (String ((Ascii (true, false, true, false, false, true, true, false)),
    (String ((Ascii (true, true, false, false, false, true, true, false)),
    (String ((Ascii (false, true, true, true, false, true, false, false)),
    (String ((Ascii (false, false, false, false, true, true, true, false)),
    (String ((Ascii (true, false, false, false, false, true, true, false)),
    (String ((Ascii (false, true, false, false, true, true, true, false)),
    (String ((Ascii (true, true, false, false, true, true, true, false)),
    (String ((Ascii (true, false, true, false, false, true, true, false)),
    (String ((Ascii (true, true, true, true, true, false, true, false)),
    (String ((Ascii (false, false, true, false, true, true, true, false)),
    (String ((Ascii (false, false, true, true, false, true, true, false)),
    (String ((Ascii (true, true, false, false, true, true, true, false)),
    (String ((Ascii (true, true, true, true, true, false, true, false)),
    (String ((Ascii (false, true, false, false, true, true, true, false)),
    (String ((Ascii (true, false, false, false, false, true, true, false)),
    (String ((Ascii (true, true, true, false, true, true, true, false)),
    (String ((Ascii (true, true, true, true, true, false, true, false)),
    (String ((Ascii (false, true, false, false, true, true, true, false)),
    (String ((Ascii (true, false, true, false, false, true, true, false)),
    (String ((Ascii (true, true, false, false, false, true, true, false)),
    (String ((Ascii (true, true, true, true, false, true, true, false)),
    (String ((Ascii (false, true, false, false, true, true, true, false)),
    (String ((Ascii (false, false, true, false, false, true, true, false)),
    EmptyString)))))))))))))))))))))))))))))))))))))))))))))))))),
    (fun _ b ->
    spec_exact sx_raw (framing_spec_raw { off = N0; bytes = b }))) :: (((String
    ((Ascii (true, true, false, false, true, true, true, false)), (String
    ((Ascii (false, false, false, false, true, true, true, false)), (String
    ((Ascii (true, false, true, false, false, true, true, false)), (String
    ((Ascii (true, true, false, false, false, true, true, false)), (String
    ((Ascii (false, true, true, true, false, true, false, false)), (String
    ((Ascii (false, false, false, false, true, true, true, false)), (String
    ((Ascii (true, false, false, false, false, true, true, false)), (String
    ((Ascii (false, true, false, false, true, true, true, false)), (String
    ((Ascii (true, true, false, false, true, true, true, false)), (String
    ((Ascii (true, false, true, false, false, true, true, false)), (String
    ((Ascii (true, true, true, true, true, false, true, false)), (String
    ((Ascii (false, false, true, false, true, true, true, false)), (String
    ((Ascii (false, false, true, true, false, true, true, false)), (String
    ((Ascii (true, true, false, false, true, true, true, false)), (String
    ((Ascii (true, true, true, true, true, false, true, false)), (String
    ((Ascii (true, false, true, false, false, true, true, false)), (String
    ((Ascii (false, true, true, true, false, true, true, false)), (String
    ((Ascii (true, true, false, false, false, true, true, false)), (String
    ((Ascii (false, true, false, false, true, true, true, false)), (String
    ((Ascii (true, false, false, true, true, true, true, false)), (String
    ((Ascii (false, false, false, false, true, true, true, false)), (String
    ((Ascii (false, false, true, false, true, true, true, false)), (String
    ((Ascii (true, false, true, false, false, true, true, false)), (String
    ((Ascii (false, false, true, false, false, true, true, false)),
    EmptyString)))))))))))))))))))))))))))))))))))))))))))))))), (fun _ b ->
    spec_exact sx_enc (framing_spec_enc { off = N0; bytes = b }))) :: (((String
    ((Ascii (true, true, false, false, true, true, true, false)), (String
    ((Ascii (false, false, false, false, true, true, true, false)), (String
    ((Ascii (true, false, true, false, false, true, true, false)), (String
    ((Ascii (true, true, false, false, false, true, true, false)), (String
    ((Ascii (false, true, true, true, false, true, false, false)), (String
    ((Ascii (false, false, false, false, true, true, true, false)), (String
    ((Ascii (true, false, false, false, false, true, true, false)), (String
    ((Ascii (false, true, false, false, true, true, true, false)), (String
    ((Ascii (true, true, false, false, true, true, true, false)), (String
    ((Ascii (true, false, true, false, false, true, true, false)), (String
    ((Ascii (true, true, true, true, true, false, true, false)), (String
    ((Ascii (false, false, true, false, true, true, true, false)), (String
    ((Ascii (false, false, true, true, false, true, true, false)), (String
    ((Ascii (true, true, false, false, true, true, true, false)), (String
    ((Ascii (true, true, true, true, true, false, true, false)), (String
    ((Ascii (false, false, false, false, true, true, true, false)), (String
    ((Ascii (false, false, true, true, false, true, true, false)), (String
    ((Ascii (true, false, false, false, false, true, true, false)), (String
    ((Ascii (true, false, false, true, false, true, true, false)), (String
    ((Ascii (false, true, true, true, false, true, true, false)), (String
    ((Ascii (false, false, true, false, true, true, true, false)), (String
    ((Ascii (true, false, true, false, false, true, true, false)), (String
    ((Ascii (false, false, false, true, true, true, true, false)), (String
    ((Ascii (false, false, true, false, true, true, true, false)),
    EmptyString)))))))))))))))))))))))))))))))))))))))))))))))), (fun _ b ->
    match framing_spec { off = N0; bytes = b } with
    | FrIncomplete m ->
      app
        (str (String ((Ascii (true, false, true, true, true, true, false,
          false)), (String ((Ascii (false, false, false, false, false, true,
          false, false)), (String ((Ascii (false, false, false, true, false,
          true, false, false)), (String ((Ascii (true, false, false, true,
          false, true, true, false)), (String ((Ascii (false, true, true,
          true, false, true, true, false)), (String ((Ascii (true, true,
          false, false, false, true, true, false)), (String ((Ascii (false,
          false, false, false, false, true, false, false)),
          EmptyString)))))))))))))))
        (app (dec m)
          (str (String ((Ascii (true, false, false, true, false, true, false,
            false)), EmptyString))))
    | FrTooLarge s ->
      app
        (str (String ((Ascii (true, false, true, true, true, true, false,
          false)), (String ((Ascii (false, false, false, false, false, true,
          false, false)), (String ((Ascii (false, false, false, true, false,
          true, false, false)), (String ((Ascii (true, false, true, false,
          false, true, true, false)), (String ((Ascii (false, true, false,
          false, true, true, true, false)), (String ((Ascii (false, true,
          false, false, true, true, true, false)), (String ((Ascii (false,
          false, false, false, false, true, false, false)), (String ((Ascii
          (false, false, true, false, true, false, true, false)), (String
          ((Ascii (true, true, true, true, false, true, true, false)),
          (String ((Ascii (true, true, true, true, false, true, true,
          false)), (String ((Ascii (false, false, true, true, false, false,
          true, false)), (String ((Ascii (true, false, false, false, false,
          true, true, false)), (String ((Ascii (false, true, false, false,
          true, true, true, false)), (String ((Ascii (true, true, true,
          false, false, true, true, false)), (String ((Ascii (true, false,
          true, false, false, true, true, false)), (String ((Ascii (false,
          false, false, false, false, true, false, false)),
          EmptyString)))))))))))))))))))))))))))))))))
        (app (show_at s)
          (str (String ((Ascii (true, false, false, true, false, true, false,
            false)), EmptyString))))
    | FrOk (_, _, r) ->
      app
        (str (String ((Ascii (true, true, true, true, false, true, true,
          false)), (String ((Ascii (true, true, false, true, false, true,
          true, false)), (String ((Ascii (true, false, true, true, false,
          true, false, false)), (String ((Ascii (false, true, false, false,
          true, true, true, false)), (String ((Ascii (true, false, true,
          false, false, true, true, false)), (String ((Ascii (true, false,
          true, true, false, true, true, false)), (String ((Ascii (false,
          false, false, false, false, true, false, false)),
          EmptyString))))))))))))))) (show_at r))) :: []))

type tlsState =
| SNone
| SClientHello
| SAskResumeSession
| SResumeSession
| SServerHello
| SCertificate
| SCertificateSt
| SServerKeyExchange
| SServerHelloDone
| SClientKeyExchange
| SClientChangeCipherSpec
| SCRCertRequest
| SCRHelloDone
| SCRCert
| SCRClientKeyExchange
| SCRCertVerify
| SNoCertSKE
| SNoCertHelloDone
| SNoCertCKE
| SPskHelloDone
| SPskCKE
| SSessionEncrypted
| SAlert
| SFinished
| SInvalid

type hs_kind =
| KHelloRequest
| KClientHello
| KServerHello
| KServerHelloV13Draft18
| KNewSessionTicket
| KEndOfEarlyData
| KHelloRetryRequest
| KCertificate
| KServerKeyExchange
| KCertificateRequest
| KServerDone
| KCertificateVerify
| KClientKeyExchange
| KFinished
| KCertificateStatus
| KNextProtocol
| KKeyUpdate

type spat =
| SP_any
| SP_bind
| SP_is of tlsState

type hpat =
| HP_any
| HP_is of hs_kind

type dpat =
| DP_any
| DP_is of bool

type mpat =
| MP_any
| MP_handshake
| MP_ccs
| MP_alert
| MP_appdata
| MP_heartbeat

type hrhs =
| R_ok of tlsState
| R_same
| R_invalid
| R_sid_split of tlsState * tlsState

type orhs =
| O_ok of tlsState
| O_same
| O_invalid
| O_delegate
| O_alert_split of tlsState

(** val all_states : tlsState list **)

let all_states =
  SNone :: (SClientHello :: (SAskResumeSession :: (SResumeSession :: (SServerHello :: (SCertificate :: (SCertificateSt :: (SServerKeyExchange :: (SServerHelloDone :: (SClientKeyExchange :: (SClientChangeCipherSpec :: (SCRCertRequest :: (SCRHelloDone :: (SCRCert :: (SCRClientKeyExchange :: (SCRCertVerify :: (SNoCertSKE :: (SNoCertHelloDone :: (SNoCertCKE :: (SPskHelloDone :: (SPskCKE :: (SSessionEncrypted :: (SAlert :: (SFinished :: (SInvalid :: []))))))))))))))))))))))))

(** val all_hs_kinds : hs_kind list **)

let all_hs_kinds =
  KHelloRequest :: (KClientHello :: (KServerHello :: (KServerHelloV13Draft18 :: (KNewSessionTicket :: (KEndOfEarlyData :: (KHelloRetryRequest :: (KCertificate :: (KServerKeyExchange :: (KCertificateRequest :: (KServerDone :: (KCertificateVerify :: (KClientKeyExchange :: (KFinished :: (KCertificateStatus :: (KNextProtocol :: (KKeyUpdate :: []))))))))))))))))

(** val tlsState_beq : tlsState -> tlsState -> bool **)

let tlsState_beq x y =
  match x with
  | SNone -> (match y with
              | SNone -> true
              | _ -> false)
  | SClientHello -> (match y with
                     | SClientHello -> true
                     | _ -> false)
  | SAskResumeSession -> (match y with
                          | SAskResumeSession -> true
                          | _ -> false)
  | SResumeSession -> (match y with
                       | SResumeSession -> true
                       | _ -> false)
  | SServerHello -> (match y with
                     | SServerHello -> true
                     | _ -> false)
  | SCertificate -> (match y with
                     | SCertificate -> true
                     | _ -> false)
  | SCertificateSt -> (match y with
                       | SCertificateSt -> true
                       | _ -> false)
  | SServerKeyExchange ->
    (match y with
     | SServerKeyExchange -> true
     | _ -> false)
  | SServerHelloDone -> (match y with
                         | SServerHelloDone -> true
                         | _ -> false)
  | SClientKeyExchange ->
    (match y with
     | SClientKeyExchange -> true
     | _ -> false)
  | SClientChangeCipherSpec ->
    (match y with
     | SClientChangeCipherSpec -> true
     | _ -> false)
  | SCRCertRequest -> (match y with
                       | SCRCertRequest -> true
                       | _ -> false)
  | SCRHelloDone -> (match y with
                     | SCRHelloDone -> true
                     | _ -> false)
  | SCRCert -> (match y with
                | SCRCert -> true
                | _ -> false)
  | SCRClientKeyExchange ->
    (match y with
     | SCRClientKeyExchange -> true
     | _ -> false)
  | SCRCertVerify -> (match y with
                      | SCRCertVerify -> true
                      | _ -> false)
  | SNoCertSKE -> (match y with
                   | SNoCertSKE -> true
                   | _ -> false)
  | SNoCertHelloDone -> (match y with
                         | SNoCertHelloDone -> true
                         | _ -> false)
  | SNoCertCKE -> (match y with
                   | SNoCertCKE -> true
                   | _ -> false)
  | SPskHelloDone -> (match y with
                      | SPskHelloDone -> true
                      | _ -> false)
  | SPskCKE -> (match y with
                | SPskCKE -> true
                | _ -> false)
  | SSessionEncrypted -> (match y with
                          | SSessionEncrypted -> true
                          | _ -> false)
  | SAlert -> (match y with
               | SAlert -> true
               | _ -> false)
  | SFinished -> (match y with
                  | SFinished -> true
                  | _ -> false)
  | SInvalid -> (match y with
                 | SInvalid -> true
                 | _ -> false)

(** val hs_kind_beq : hs_kind -> hs_kind -> bool **)

let hs_kind_beq x y =
  match x with
  | KHelloRequest -> (match y with
                      | KHelloRequest -> true
                      | _ -> false)
  | KClientHello -> (match y with
                     | KClientHello -> true
                     | _ -> false)
  | KServerHello -> (match y with
                     | KServerHello -> true
                     | _ -> false)
  | KServerHelloV13Draft18 ->
    (match y with
     | KServerHelloV13Draft18 -> true
     | _ -> false)
  | KNewSessionTicket -> (match y with
                          | KNewSessionTicket -> true
                          | _ -> false)
  | KEndOfEarlyData -> (match y with
                        | KEndOfEarlyData -> true
                        | _ -> false)
  | KHelloRetryRequest ->
    (match y with
     | KHelloRetryRequest -> true
     | _ -> false)
  | KCertificate -> (match y with
                     | KCertificate -> true
                     | _ -> false)
  | KServerKeyExchange ->
    (match y with
     | KServerKeyExchange -> true
     | _ -> false)
  | KCertificateRequest ->
    (match y with
     | KCertificateRequest -> true
     | _ -> false)
  | KServerDone -> (match y with
                    | KServerDone -> true
                    | _ -> false)
  | KCertificateVerify ->
    (match y with
     | KCertificateVerify -> true
     | _ -> false)
  | KClientKeyExchange ->
    (match y with
     | KClientKeyExchange -> true
     | _ -> false)
  | KFinished -> (match y with
                  | KFinished -> true
                  | _ -> false)
  | KCertificateStatus ->
    (match y with
     | KCertificateStatus -> true
     | _ -> false)
  | KNextProtocol -> (match y with
                      | KNextProtocol -> true
                      | _ -> false)
  | KKeyUpdate -> (match y with
                   | KKeyUpdate -> true
                   | _ -> false)

(** val hs_arms : (((spat * hpat) * dpat) * hrhs) list **)

let hs_arms =
  ((((SP_is SNone), (HP_is KClientHello)), (DP_is true)), (R_sid_split
    (SAskResumeSession, SClientHello))) :: (((((SP_is SClientHello), (HP_is
    KServerHello)), (DP_is false)), (R_ok SServerHello)) :: (((((SP_is
    SServerHello), (HP_is KCertificate)), (DP_is false)), (R_ok
    SCertificate)) :: (((((SP_is SCertificate), (HP_is KServerKeyExchange)),
    (DP_is false)), (R_ok SServerKeyExchange)) :: (((((SP_is SCertificate),
    (HP_is KCertificateStatus)), (DP_is false)), (R_ok
    SCertificateSt)) :: (((((SP_is SCertificateSt), (HP_is
    KServerKeyExchange)), (DP_is false)), (R_ok
    SServerKeyExchange)) :: (((((SP_is SServerKeyExchange), (HP_is
    KServerDone)), (DP_is false)), (R_ok SServerHelloDone)) :: (((((SP_is
    SServerHelloDone), (HP_is KClientKeyExchange)), (DP_is true)), (R_ok
    SClientKeyExchange)) :: (((((SP_is SCertificate), (HP_is
    KCertificateRequest)), (DP_is false)), (R_ok
    SCRCertRequest)) :: (((((SP_is SServerKeyExchange), (HP_is
    KCertificateRequest)), (DP_is false)), (R_ok
    SCRCertRequest)) :: (((((SP_is SCRCertRequest), (HP_is KServerDone)),
    (DP_is false)), (R_ok SCRHelloDone)) :: (((((SP_is SCRHelloDone), (HP_is
    KCertificate)), (DP_is true)), (R_ok SCRCert)) :: (((((SP_is SCRCert),
    (HP_is KClientKeyExchange)), (DP_is true)), (R_ok
    SCRClientKeyExchange)) :: (((((SP_is SCRClientKeyExchange), (HP_is
    KCertificateVerify)), (DP_is true)), (R_ok SCRCertVerify)) :: (((((SP_is
    SServerHello), (HP_is KServerKeyExchange)), (DP_is false)), (R_ok
    SNoCertSKE)) :: (((((SP_is SNoCertSKE), (HP_is KServerDone)), (DP_is
    false)), (R_ok SNoCertHelloDone)) :: (((((SP_is SNoCertHelloDone), (HP_is
    KClientKeyExchange)), (DP_is true)), (R_ok SNoCertCKE)) :: (((((SP_is
    SCertificate), (HP_is KServerDone)), (DP_is false)), (R_ok
    SPskHelloDone)) :: (((((SP_is SPskHelloDone), (HP_is
    KClientKeyExchange)), (DP_is true)), (R_ok SPskCKE)) :: (((((SP_is
    SAskResumeSession), (HP_is KServerHello)), (DP_is false)), (R_ok
    SResumeSession)) :: (((((SP_is SResumeSession), (HP_is KCertificate)),
    (DP_is false)), (R_ok SCertificate)) :: (((((SP_is SClientHello), (HP_is
    KServerHelloV13Draft18)), (DP_is false)), (R_ok
    SClientChangeCipherSpec)) :: (((((SP_is SNone), (HP_is KHelloRequest)),
    DP_any), R_invalid) :: ((((SP_bind, (HP_is KHelloRequest)), DP_any),
    R_same) :: (((((SP_is SClientChangeCipherSpec), (HP_is
    KNewSessionTicket)), (DP_is false)), (R_ok
    SClientChangeCipherSpec)) :: ((((SP_any, HP_any), DP_any),
    R_invalid) :: [])))))))))))))))))))))))))

(** val outer_arms : (((spat * mpat) * dpat) * orhs) list **)

let outer_arms =
  ((((SP_is SInvalid), MP_any), DP_any), (O_ok SInvalid)) :: (((((SP_is
    SSessionEncrypted), MP_any), DP_any), (O_ok
    SSessionEncrypted)) :: (((((SP_is SFinished), MP_any), DP_any), (O_ok
    SInvalid)) :: ((((SP_any, MP_handshake), DP_any),
    O_delegate) :: (((((SP_is SClientKeyExchange), MP_ccs), DP_any), (O_ok
    SClientChangeCipherSpec)) :: (((((SP_is SClientChangeCipherSpec),
    MP_ccs), (DP_is false)), (O_ok SSessionEncrypted)) :: (((((SP_is
    SCRClientKeyExchange), MP_ccs), DP_any), (O_ok
    SClientChangeCipherSpec)) :: (((((SP_is SCRCertVerify), MP_ccs), DP_any),
    (O_ok SClientChangeCipherSpec)) :: (((((SP_is SNoCertCKE), MP_ccs),
    DP_any), (O_ok SClientChangeCipherSpec)) :: (((((SP_is SPskCKE), MP_ccs),
    DP_any), (O_ok SClientChangeCipherSpec)) :: (((((SP_is SResumeSession),
    MP_ccs), DP_any), (O_ok SClientChangeCipherSpec)) :: (((((SP_is
    SAskResumeSession), MP_ccs), (DP_is true)), (O_ok
    SAskResumeSession)) :: ((((SP_bind, MP_alert), DP_any), (O_alert_split
    SFinished)) :: ((((SP_any, MP_any), DP_any), O_invalid) :: [])))))))))))))

(** val alert_keep_severity : n **)

let alert_keep_severity =
  Npos XH

type mkind =
| MkHs of hs_kind * bool
| MkCcs
| MkAlert of n * n
| MkAppData
| MkHeartbeat

type akind =
| AHs of hs_kind * bool
| ACcs
| AAlert of bool
| AAppData
| AHeartbeat

(** val abs_kind : n -> mkind -> akind **)

let abs_kind keep_sev = function
| MkHs (k, s) -> AHs (k, s)
| MkCcs -> ACcs
| MkAlert (sev, _) -> AAlert (N.eqb sev keep_sev)
| MkAppData -> AAppData
| MkHeartbeat -> AHeartbeat

(** val spat_m : spat -> tlsState -> bool **)

let spat_m p0 s =
  match p0 with
  | SP_is s' -> tlsState_beq s s'
  | _ -> true

(** val dpat_m : dpat -> bool -> bool **)

let dpat_m p0 d =
  match p0 with
  | DP_any -> true
  | DP_is b -> eqb b d

(** val hpat_m : hpat -> hs_kind -> bool **)

let hpat_m p0 k =
  match p0 with
  | HP_any -> true
  | HP_is k' -> hs_kind_beq k k'

(** val mpat_m : mpat -> akind -> bool **)

let mpat_m p0 a =
  match p0 with
  | MP_any -> true
  | MP_handshake -> (match a with
                     | AHs (_, _) -> true
                     | _ -> false)
  | MP_ccs -> (match a with
               | ACcs -> true
               | _ -> false)
  | MP_alert -> (match a with
                 | AAlert _ -> true
                 | _ -> false)
  | MP_appdata -> (match a with
                   | AAppData -> true
                   | _ -> false)
  | MP_heartbeat -> (match a with
                     | AHeartbeat -> true
                     | _ -> false)

(** val hs_first :
    (((spat * hpat) * dpat) * hrhs) list -> tlsState -> hs_kind -> bool ->
    bool -> tlsState option **)

let rec hs_first arms st k sid d =
  match arms with
  | [] -> None
  | p0 :: t ->
    let (p1, r) = p0 in
    let (p2, dp) = p1 in
    let (sp, hp) = p2 in
    if (&&) ((&&) (spat_m sp st) (hpat_m hp k)) (dpat_m dp d)
    then (match r with
          | R_ok s -> Some s
          | R_same -> Some st
          | R_invalid -> None
          | R_sid_split (a, b) -> Some (if sid then a else b))
    else hs_first t st k sid d

(** val tls_state_transition_handshake :
    tlsState -> hs_kind -> bool -> bool -> tlsState option **)

let tls_state_transition_handshake =
  hs_first hs_arms

(** val outer_first :
    (((spat * mpat) * dpat) * orhs) list -> tlsState -> akind -> bool ->
    tlsState option **)

let rec outer_first arms st a d =
  match arms with
  | [] -> None
  | p0 :: t ->
    let (p1, r) = p0 in
    let (p2, dp) = p1 in
    let (sp, mp) = p2 in
    if (&&) ((&&) (spat_m sp st) (mpat_m mp a)) (dpat_m dp d)
    then (match r with
          | O_ok s -> Some s
          | O_same -> Some st
          | O_invalid -> None
          | O_delegate ->
            (match a with
             | AHs (k, sid) -> tls_state_transition_handshake st k sid d
             | _ -> None)
          | O_alert_split other ->
            (match a with
             | AAlert keeps -> Some (if keeps then st else other)
             | _ -> None))
    else outer_first t st a d

(** val transition_a : tlsState -> akind -> bool -> tlsState option **)

let transition_a =
  outer_first outer_arms

(** val tls_state_transition :
    tlsState -> mkind -> bool -> tlsState option **)

let tls_state_transition st m to_server =
  transition_a st (abs_kind alert_keep_severity m) to_server

(** val state_name : tlsState -> string **)

let state_name = function
| SNone ->
  String ((Ascii (false, true, true, true, false, false, true, false)),
    (String ((Ascii (true, true, true, true, false, true, true, false)),
    (String ((Ascii (false, true, true, true, false, true, true, false)),
    (String ((Ascii (true, false, true, false, false, true, true, false)),
    EmptyString)))))))
| SClientHello ->
  String ((Ascii (true, true, false, false, false, false, true, false)),
    (String ((Ascii (false, false, true, true, false, true, true, false)),
    (String ((Ascii (true, false, false, true, false, true, true, false)),
    (String ((Ascii (true, false, true, false, false, true, true, false)),
    (String ((Ascii (false, true, true, true, false, true, true, false)),
    (String ((Ascii (false, false, true, false, true, true, true, false)),
    (String ((Ascii (false, false, false, true, false, false, true, false)),
    (String ((Ascii (true, false, true, false, false, true, true, false)),
    (String ((Ascii (false, false, true, true, false, true, true, false)),
    (String ((Ascii (false, false, true, true, false, true, true, false)),
    (String ((Ascii (true, true, true, true, false, true, true, false)),
    EmptyString)))))))))))))))))))))
| SAskResumeSession ->
  String ((Ascii (true, false, false, false, false, false, true, false)),
    (String ((Ascii (true, true, false, false, true, true, true, false)),
    (String ((Ascii (true, true, false, true, false, true, true, false)),
    (String ((Ascii (false, true, false, false, true, false, true, false)),
    (String ((Ascii (true, false, true, false, false, true, true, false)),
    (String ((Ascii (true, true, false, false, true, true, true, false)),
    (String ((Ascii (true, false, true, false, true, true, true, false)),
    (String ((Ascii (true, false, true, true, false, true, true, false)),
    (String ((Ascii (true, false, true, false, false, true, true, false)),
    (String ((Ascii (true, true, false, false, true, false, true, false)),
    (String ((Ascii (true, false, true, false, false, true, true, false)),
    (String ((Ascii (true, true, false, false, true, true, true, false)),
    (String ((Ascii (true, true, false, false, true, true, true, false)),
    (String ((Ascii (true, false, false, true, false, true, true, false)),
    (String ((Ascii (true, true, true, true, false, true, true, false)),
    (String ((Ascii (false, true, true, true, false, true, true, false)),
    EmptyString)))))))))))))))))))))))))))))))
| SResumeSession ->
  String ((Ascii (false, true, false, false, true, false, true, false)),
    (String ((Ascii (true, false, true, false, false, true, true, false)),
    (String ((Ascii (true, true, false, false, true, true, true, false)),
    (String ((Ascii (true, false, true, false, true, true, true, false)),
    (String ((Ascii (true, false, true, true, false, true, true, false)),
    (String ((Ascii (true, false, true, false, false, true, true, false)),
    (String ((Ascii (true, true, false, false, true, false, true, false)),
    (String ((Ascii (true, false, true, false, false, true, true, false)),
    (String ((Ascii (true, true, false, false, true, true, true, false)),
    (String ((Ascii (true, true, false, false, true, true, true, false)),
    (String ((Ascii (true, false, false, true, false, true, true, false)),
    (String ((Ascii (true, true, true, true, false, true, true, false)),
    (String ((Ascii (false, true, true, true, false, true, true, false)),
    EmptyString)))))))))))))))))))))))))
| SServerHello ->
  String ((Ascii (true, true, false, false, true, false, true, false)),
    (String ((Ascii (true, false, true, false, false, true, true, false)),
    (String ((Ascii (false, true, false, false, true, true, true, false)),
    (String ((Ascii (false, true, true, false, true, true, true, false)),
    (String ((Ascii (true, false, true, false, false, true, true, false)),
    (String ((Ascii (false, true, false, false, true, true, true, false)),
    (String ((Ascii (false, false, false, true, false, false, true, false)),
    (String ((Ascii (true, false, true, false, false, true, true, false)),
    (String ((Ascii (false, false, true, true, false, true, true, false)),
    (String ((Ascii (false, false, true, true, false, true, true, false)),
    (String ((Ascii (true, true, true, true, false, true, true, false)),
    EmptyString)))))))))))))))))))))
| SCertificate ->
  String ((Ascii (true, true, false, false, false, false, true, false)),
    (String ((Ascii (true, false, true, false, false, true, true, false)),
    (String ((Ascii (false, true, false, false, true, true, true, false)),
    (String ((Ascii (false, false, true, false, true, true, true, false)),
    (String ((Ascii (true, false, false, true, false, true, true, false)),
    (String ((Ascii (false, true, true, false, false, true, true, false)),
    (String ((Ascii (true, false, false, true, false, true, true, false)),
    (String ((Ascii (true, true, false, false, false, true, true, false)),
    (String ((Ascii (true, false, false, false, false, true, true, false)),
    (String ((Ascii (false, false, true, false, true, true, true, false)),
    (String ((Ascii (true, false, true, false, false, true, true, false)),
    EmptyString)))))))))))))))))))))
| SCertificateSt ->
  String ((Ascii (true, true, false, false, false, false, true, false)),
    (String ((Ascii (true, false, true, false, false, true, true, false)),
    (String ((Ascii (false, true, false, false, true, true, true, false)),
    (String ((Ascii (false, false, true, false, true, true, true, false)),
    (String ((Ascii (true, false, false, true, false, true, true, false)),
    (String ((Ascii (false, true, true, false, false, true, true, false)),
    (String ((Ascii (true, false, false, true, false, true, true, false)),
    (String ((Ascii (true, true, false, false, false, true, true, false)),
    (String ((Ascii (true, false, false, false, false, true, true, false)),
    (String ((Ascii (false, false, true, false, true, true, true, false)),
    (String ((Ascii (true, false, true, false, false, true, true, false)),
    (String ((Ascii (true, true, false, false, true, false, true, false)),
    (String ((Ascii (false, false, true, false, true, true, true, false)),
    EmptyString)))))))))))))))))))))))))
| SServerKeyExchange ->
  String ((Ascii (true, true, false, false, true, false, true, false)),
    (String ((Ascii (true, false, true, false, false, true, true, false)),
    (String ((Ascii (false, true, false, false, true, true, true, false)),
    (String ((Ascii (false, true, true, false, true, true, true, false)),
    (String ((Ascii (true, false, true, false, false, true, true, false)),
    (String ((Ascii (false, true, false, false, true, true, true, false)),
    (String ((Ascii (true, true, false, true, false, false, true, false)),
    (String ((Ascii (true, false, true, false, false, true, true, false)),
    (String ((Ascii (true, false, false, true, true, true, true, false)),
    (String ((Ascii (true, false, true, false, false, false, true, false)),
    (String ((Ascii (false, false, false, true, true, true, true, false)),
    (String ((Ascii (true, true, false, false, false, true, true, false)),
    (String ((Ascii (false, false, false, true, false, true, true, false)),
    (String ((Ascii (true, false, false, false, false, true, true, false)),
    (String ((Ascii (false, true, true, true, false, true, true, false)),
    (String ((Ascii (true, true, true, false, false, true, true, false)),
    (String ((Ascii (true, false, true, false, false, true, true, false)),
    EmptyString)))))))))))))))))))))))))))))))))
| SServerHelloDone ->
  String ((Ascii (true, true, false, false, true, false, true, false)),
    (String ((Ascii (true, false, true, false, false, true, true, false)),
    (String ((Ascii (false, true, false, false, true, true, true, false)),
    (String ((Ascii (false, true, true, false, true, true, true, false)),
    (String ((Ascii (true, false, true, false, false, true, true, false)),
    (String ((Ascii (false, true, false, false, true, true, true, false)),
    (String ((Ascii (false, false, false, true, false, false, true, false)),
    (String ((Ascii (true, false, true, false, false, true, true, false)),
    (String ((Ascii (false, false, true, true, false, true, true, false)),
    (String ((Ascii (false, false, true, true, false, true, true, false)),
    (String ((Ascii (true, true, true, true, false, true, true, false)),
    (String ((Ascii (false, false, true, false, false, false, true, false)),
    (String ((Ascii (true, true, true, true, false, true, true, false)),
    (String ((Ascii (false, true, true, true, false, true, true, false)),
    (String ((Ascii (true, false, true, false, false, true, true, false)),
    EmptyString)))))))))))))))))))))))))))))
| SClientKeyExchange ->
  String ((Ascii (true, true, false, false, false, false, true, false)),
    (String ((Ascii (false, false, true, true, false, true, true, false)),
    (String ((Ascii (true, false, false, true, false, true, true, false)),
    (String ((Ascii (true, false, true, false, false, true, true, false)),
    (String ((Ascii (false, true, true, true, false, true, true, false)),
    (String ((Ascii (false, false, true, false, true, true, true, false)),
    (String ((Ascii (true, true, false, true, false, false, true, false)),
    (String ((Ascii (true, false, true, false, false, true, true, false)),
    (String ((Ascii (true, false, false, true, true, true, true, false)),
    (String ((Ascii (true, false, true, false, false, false, true, false)),
    (String ((Ascii (false, false, false, true, true, true, true, false)),
    (String ((Ascii (true, true, false, false, false, true, true, false)),
    (String ((Ascii (false, false, false, true, false, true, true, false)),
    (String ((Ascii (true, false, false, false, false, true, true, false)),
    (String ((Ascii (false, true, true, true, false, true, true, false)),
    (String ((Ascii (true, true, true, false, false, true, true, false)),
    (String ((Ascii (true, false, true, false, false, true, true, false)),
    EmptyString)))))))))))))))))))))))))))))))))
| SClientChangeCipherSpec ->
  String ((Ascii (true, true, false, false, false, false, true, false)),
    (String ((Ascii (false, false, true, true, false, true, true, false)),
    (String ((Ascii (true, false, false, true, false, true, true, false)),
    (String ((Ascii (true, false, true, false, false, true, true, false)),
    (String ((Ascii (false, true, true, true, false, true, true, false)),
    (String ((Ascii (false, false, true, false, true, true, true, false)),
    (String ((Ascii (true, true, false, false, false, false, true, false)),
    (String ((Ascii (false, false, false, true, false, true, true, false)),
    (String ((Ascii (true, false, false, false, false, true, true, false)),
    (String ((Ascii (false, true, true, true, false, true, true, false)),
    (String ((Ascii (true, true, true, false, false, true, true, false)),
    (String ((Ascii (true, false, true, false, false, true, true, false)),
    (String ((Ascii (true, true, false, false, false, false, true, false)),
    (String ((Ascii (true, false, false, true, false, true, true, false)),
    (String ((Ascii (false, false, false, false, true, true, true, false)),
    (String ((Ascii (false, false, false, true, false, true, true, false)),
    (String ((Ascii (true, false, true, false, false, true, true, false)),
    (String ((Ascii (false, true, false, false, true, true, true, false)),
    (String ((Ascii (true, true, false, false, true, false, true, false)),
    (String ((Ascii (false, false, false, false, true, true, true, false)),
    (String ((Ascii (true, false, true, false, false, true, true, false)),
    (String ((Ascii (true, true, false, false, false, true, true, false)),
    EmptyString)))))))))))))))))))))))))))))))))))))))))))
| SCRCertRequest ->
  String ((Ascii (true, true, false, false, false, false, true, false)),
    (String ((Ascii (false, true, false, false, true, false, true, false)),
    (String ((Ascii (true, true, false, false, false, false, true, false)),
    (String ((Ascii (true, false, true, false, false, true, true, false)),
    (String ((Ascii (false, true, false, false, true, true, true, false)),
    (String ((Ascii (false, false, true, false, true, true, true, false)),
    (String ((Ascii (false, true, false, false, true, false, true, false)),
    (String ((Ascii (true, false, true, false, false, true, true, false)),
    (String ((Ascii (true, false, false, false, true, true, true, false)),
    (String ((Ascii (true, false, true, false, true, true, true, false)),
    (String ((Ascii (true, false, true, false, false, true, true, false)),
    (String ((Ascii (true, true, false, false, true, true, true, false)),
    (String ((Ascii (false, false, true, false, true, true, true, false)),
    EmptyString)))))))))))))))))))))))))
| SCRHelloDone ->
  String ((Ascii (true, true, false, false, false, false, true, false)),
    (String ((Ascii (false, true, false, false, true, false, true, false)),
    (String ((Ascii (false, false, false, true, false, false, true, false)),
    (String ((Ascii (true, false, true, false, false, true, true, false)),
    (String ((Ascii (false, false, true, true, false, true, true, false)),
    (String ((Ascii (false, false, true, true, false, true, true, false)),
    (String ((Ascii (true, true, true, true, false, true, true, false)),
    (String ((Ascii (false, false, true, false, false, false, true, false)),
    (String ((Ascii (true, true, true, true, false, true, true, false)),
    (String ((Ascii (false, true, true, true, false, true, true, false)),
    (String ((Ascii (true, false, true, false, false, true, true, false)),
    EmptyString)))))))))))))))))))))
| SCRCert ->
  String ((Ascii (true, true, false, false, false, false, true, false)),
    (String ((Ascii (false, true, false, false, true, false, true, false)),
    (String ((Ascii (true, true, false, false, false, false, true, false)),
    (String ((Ascii (true, false, true, false, false, true, true, false)),
    (String ((Ascii (false, true, false, false, true, true, true, false)),
    (String ((Ascii (false, false, true, false, true, true, true, false)),
    EmptyString)))))))))))
| SCRClientKeyExchange ->
  String ((Ascii (true, true, false, false, false, false, true, false)),
    (String ((Ascii (false, true, false, false, true, false, true, false)),
    (String ((Ascii (true, true, false, false, false, false, true, false)),
    (String ((Ascii (false, false, true, true, false, true, true, false)),
    (String ((Ascii (true, false, false, true, false, true, true, false)),
    (String ((Ascii (true, false, true, false, false, true, true, false)),
    (String ((Ascii (false, true, true, true, false, true, true, false)),
    (String ((Ascii (false, false, true, false, true, true, true, false)),
    (String ((Ascii (true, true, false, true, false, false, true, false)),
    (String ((Ascii (true, false, true, false, false, true, true, false)),
    (String ((Ascii (true, false, false, true, true, true, true, false)),
    (String ((Ascii (true, false, true, false, false, false, true, false)),
    (String ((Ascii (false, false, false, true, true, true, true, false)),
    (String ((Ascii (true, true, false, false, false, true, true, false)),
    (String ((Ascii (false, false, false, true, false, true, true, false)),
    (String ((Ascii (true, false, false, false, false, true, true, false)),
    (String ((Ascii (false, true, true, true, false, true, true, false)),
    (String ((Ascii (true, true, true, false, false, true, true, false)),
    (String ((Ascii (true, false, true, false, false, true, true, false)),
    EmptyString)))))))))))))))))))))))))))))))))))))
| SCRCertVerify ->
  String ((Ascii (true, true, false, false, false, false, true, false)),
    (String ((Ascii (false, true, false, false, true, false, true, false)),
    (String ((Ascii (true, true, false, false, false, false, true, false)),
    (String ((Ascii (true, false, true, false, false, true, true, false)),
    (String ((Ascii (false, true, false, false, true, true, true, false)),
    (String ((Ascii (false, false, true, false, true, true, true, false)),
    (String ((Ascii (false, true, true, false, true, false, true, false)),
    (String ((Ascii (true, false, true, false, false, true, true, false)),
    (String ((Ascii (false, true, false, false, true, true, true, false)),
    (String ((Ascii (true, false, false, true, false, true, true, false)),
    (String ((Ascii (false, true, true, false, false, true, true, false)),
    (String ((Ascii (true, false, false, true, true, true, true, false)),
    EmptyString)))))))))))))))))))))))
| SNoCertSKE ->
  String ((Ascii (false, true, true, true, false, false, true, false)),
    (String ((Ascii (true, true, true, true, false, true, true, false)),
    (String ((Ascii (true, true, false, false, false, false, true, false)),
    (String ((Ascii (true, false, true, false, false, true, true, false)),
    (String ((Ascii (false, true, false, false, true, true, true, false)),
    (String ((Ascii (false, false, true, false, true, true, true, false)),
    (String ((Ascii (true, true, false, false, true, false, true, false)),
    (String ((Ascii (true, true, false, true, false, false, true, false)),
    (String ((Ascii (true, false, true, false, false, false, true, false)),
    EmptyString)))))))))))))))))
| SNoCertHelloDone ->
  String ((Ascii (false, true, true, true, false, false, true, false)),
    (String ((Ascii (true, true, true, true, false, true, true, false)),
    (String ((Ascii (true, true, false, false, false, false, true, false)),
    (String ((Ascii (true, false, true, false, false, true, true, false)),
    (String ((Ascii (false, true, false, false, true, true, true, false)),
    (String ((Ascii (false, false, true, false, true, true, true, false)),
    (String ((Ascii (false, false, false, true, false, false, true, false)),
    (String ((Ascii (true, false, true, false, false, true, true, false)),
    (String ((Ascii (false, false, true, true, false, true, true, false)),
    (String ((Ascii (false, false, true, true, false, true, true, false)),
    (String ((Ascii (true, true, true, true, false, true, true, false)),
    (String ((Ascii (false, false, true, false, false, false, true, false)),
    (String ((Ascii (true, true, true, true, false, true, true, false)),
    (String ((Ascii (false, true, true, true, false, true, true, false)),
    (String ((Ascii (true, false, true, false, false, true, true, false)),
    EmptyString)))))))))))))))))))))))))))))
| SNoCertCKE ->
  String ((Ascii (false, true, true, true, false, false, true, false)),
    (String ((Ascii (true, true, true, true, false, true, true, false)),
    (String ((Ascii (true, true, false, false, false, false, true, false)),
    (String ((Ascii (true, false, true, false, false, true, true, false)),
    (String ((Ascii (false, true, false, false, true, true, true, false)),
    (String ((Ascii (false, false, true, false, true, true, true, false)),
    (String ((Ascii (true, true, false, false, false, false, true, false)),
    (String ((Ascii (true, true, false, true, false, false, true, false)),
    (String ((Ascii (true, false, true, false, false, false, true, false)),
    EmptyString)))))))))))))))))
| SPskHelloDone ->
  String ((Ascii (false, false, false, false, true, false, true, false)),
    (String ((Ascii (true, true, false, false, true, true, true, false)),
    (String ((Ascii (true, true, false, true, false, true, true, false)),
    (String ((Ascii (false, false, false, true, false, false, true, false)),
    (String ((Ascii (true, false, true, false, false, true, true, false)),
    (String ((Ascii (false, false, true, true, false, true, true, false)),
    (String ((Ascii (false, false, true, true, false, true, true, false)),
    (String ((Ascii (true, true, true, true, false, true, true, false)),
    (String ((Ascii (false, false, true, false, false, false, true, false)),
    (String ((Ascii (true, true, true, true, false, true, true, false)),
    (String ((Ascii (false, true, true, true, false, true, true, false)),
    (String ((Ascii (true, false, true, false, false, true, true, false)),
    EmptyString)))))))))))))))))))))))
| SPskCKE ->
  String ((Ascii (false, false, false, false, true, false, true, false)),
    (String ((Ascii (true, true, false, false, true, true, true, false)),
    (String ((Ascii (true, true, false, true, false, true, true, false)),
    (String ((Ascii (true, true, false, false, false, false, true, false)),
    (String ((Ascii (true, true, false, true, false, false, true, false)),
    (String ((Ascii (true, false, true, false, false, false, true, false)),
    EmptyString)))))))))))
| SSessionEncrypted ->
  String ((Ascii (true, true, false, false, true, false, true, false)),
    (String ((Ascii (true, false, true, false, false, true, true, false)),
    (String ((Ascii (true, true, false, false, true, true, true, false)),
    (String ((Ascii (true, true, false, false, true, true, true, false)),
    (String ((Ascii (true, false, false, true, false, true, true, false)),
    (String ((Ascii (true, true, true, true, false, true, true, false)),
    (String ((Ascii (false, true, true, true, false, true, true, false)),
    (String ((Ascii (true, false, true, false, false, false, true, false)),
    (String ((Ascii (false, true, true, true, false, true, true, false)),
    (String ((Ascii (true, true, false, false, false, true, true, false)),
    (String ((Ascii (false, true, false, false, true, true, true, false)),
    (String ((Ascii (true, false, false, true, true, true, true, false)),
    (String ((Ascii (false, false, false, false, true, true, true, false)),
    (String ((Ascii (false, false, true, false, true, true, true, false)),
    (String ((Ascii (true, false, true, false, false, true, true, false)),
    (String ((Ascii (false, false, true, false, false, true, true, false)),
    EmptyString)))))))))))))))))))))))))))))))
| SAlert ->
  String ((Ascii (true, false, false, false, false, false, true, false)),
    (String ((Ascii (false, false, true, true, false, true, true, false)),
    (String ((Ascii (true, false, true, false, false, true, true, false)),
    (String ((Ascii (false, true, false, false, true, true, true, false)),
    (String ((Ascii (false, false, true, false, true, true, true, false)),
    EmptyString)))))))))
| SFinished ->
  String ((Ascii (false, true, true, false, false, false, true, false)),
    (String ((Ascii (true, false, false, true, false, true, true, false)),
    (String ((Ascii (false, true, true, true, false, true, true, false)),
    (String ((Ascii (true, false, false, true, false, true, true, false)),
    (String ((Ascii (true, true, false, false, true, true, true, false)),
    (String ((Ascii (false, false, false, true, false, true, true, false)),
    (String ((Ascii (true, false, true, false, false, true, true, false)),
    (String ((Ascii (false, false, true, false, false, true, true, false)),
    EmptyString)))))))))))))))
| SInvalid ->
  String ((Ascii (true, false, false, true, false, false, true, false)),
    (String ((Ascii (false, true, true, true, false, true, true, false)),
    (String ((Ascii (false, true, true, false, true, true, true, false)),
    (String ((Ascii (true, false, false, false, false, true, true, false)),
    (String ((Ascii (false, false, true, true, false, true, true, false)),
    (String ((Ascii (true, false, false, true, false, true, true, false)),
    (String ((Ascii (false, false, true, false, false, true, true, false)),
    EmptyString)))))))))))))

(** val parse_msg_tok : byte list -> mkind * bool **)

let parse_msg_tok t =
  let a = map parse_dec (split_on X2c t) in
  let g0 = fun k -> nth k a N0 in
  let b = fun k -> negb (N.eqb (g0 k) N0) in
  (match g0 O with
   | N0 ->
     ((MkHs ((nth (N.to_nat (g0 (S O))) all_hs_kinds KHelloRequest),
       (b (S (S O))))), (b (S (S (S (S O))))))
   | Npos p0 ->
     (match p0 with
      | XI p1 ->
        (match p1 with
         | XH -> (MkAppData, (b (S (S O))))
         | _ -> (MkHeartbeat, (b (S (S O)))))
      | XO p1 ->
        (match p1 with
         | XH -> ((MkAlert ((g0 (S O)), (g0 (S (S O))))), (b (S (S (S O)))))
         | _ -> (MkHeartbeat, (b (S (S O)))))
      | XH -> (MkCcs, (b (S O)))))

(** val run_states_line :
    (tlsState -> mkind -> bool -> tlsState option) -> byte list list -> byte
    list **)

let run_states_line f = function
| [] ->
  str (String ((Ascii (false, false, false, true, false, true, false,
    false)), (String ((Ascii (true, true, false, false, true, true, true,
    false)), (String ((Ascii (false, false, true, false, true, true, true,
    false)), (String ((Ascii (true, false, false, false, false, true, true,
    false)), (String ((Ascii (false, false, true, false, true, true, true,
    false)), (String ((Ascii (true, false, true, false, false, true, true,
    false)), (String ((Ascii (true, true, false, false, true, true, true,
    false)), (String ((Ascii (true, false, false, true, false, true, false,
    false)), EmptyString))))))))))))))))
| s0 :: msgs ->
  let st0 = nth (N.to_nat (parse_dec s0)) all_states SNone in
  let step0 = fun acc t ->
    let (out, st) = acc in
    let (m, d) = parse_msg_tok t in
    (match f st m d with
     | Some s' -> ((app out (X20 :: (str (state_name s')))), s')
     | None ->
       ((app out
          (str (String ((Ascii (false, false, false, false, false, true,
            false, false)), (String ((Ascii (true, false, true, false, false,
            false, true, false)), (String ((Ascii (false, true, false, false,
            true, true, true, false)), (String ((Ascii (false, true, false,
            false, true, true, true, false)), EmptyString)))))))))), SInvalid))
  in
  app
    (fst
      (fold_left step0 msgs
        ((str (String ((Ascii (false, false, false, true, false, true, false,
           false)), (String ((Ascii (true, true, false, false, true, true,
           true, false)), (String ((Ascii (false, false, true, false, true,
           true, true, false)), (String ((Ascii (true, false, false, false,
           false, true, true, false)), (String ((Ascii (false, false, true,
           false, true, true, true, false)), (String ((Ascii (true, false,
           true, false, false, true, true, false)), (String ((Ascii (true,
           true, false, false, true, true, true, false)),
           EmptyString))))))))))))))), st0)))
    (str (String ((Ascii (true, false, false, true, false, true, false,
      false)), EmptyString)))

type who =
| C
| S0
| AnySide

type stepmsg =
| HsM of hs_kind
| ChNoSid
| ChSid
| Ccs

type step = (stepmsg * who) * tlsState

type flow = tlsState * step list

(** val flows : flow list **)

let flows =
  (SNone, (((ChNoSid, C), SClientHello) :: ((((HsM KServerHello), S0),
    SServerHello) :: ((((HsM KCertificate), S0), SCertificate) :: ((((HsM
    KServerKeyExchange), S0), SServerKeyExchange) :: ((((HsM KServerDone),
    S0), SServerHelloDone) :: ((((HsM KClientKeyExchange), C),
    SClientKeyExchange) :: (((Ccs, AnySide),
    SClientChangeCipherSpec) :: (((Ccs, S0),
    SSessionEncrypted) :: []))))))))) :: ((SCertificate, ((((HsM
    KCertificateStatus), S0), SCertificateSt) :: ((((HsM KServerKeyExchange),
    S0), SServerKeyExchange) :: []))) :: ((SCertificate, ((((HsM
    KCertificateRequest), S0), SCRCertRequest) :: ((((HsM KServerDone), S0),
    SCRHelloDone) :: ((((HsM KCertificate), C), SCRCert) :: ((((HsM
    KClientKeyExchange), C), SCRClientKeyExchange) :: ((((HsM
    KCertificateVerify), C), SCRCertVerify) :: (((Ccs, AnySide),
    SClientChangeCipherSpec) :: []))))))) :: ((SServerKeyExchange, ((((HsM
    KCertificateRequest), S0),
    SCRCertRequest) :: [])) :: ((SCRClientKeyExchange, (((Ccs, AnySide),
    SClientChangeCipherSpec) :: [])) :: ((SServerHello, ((((HsM
    KServerKeyExchange), S0), SNoCertSKE) :: ((((HsM KServerDone), S0),
    SNoCertHelloDone) :: ((((HsM KClientKeyExchange), C),
    SNoCertCKE) :: (((Ccs, AnySide),
    SClientChangeCipherSpec) :: []))))) :: ((SCertificate, ((((HsM
    KServerDone), S0), SPskHelloDone) :: ((((HsM KClientKeyExchange), C),
    SPskCKE) :: (((Ccs, AnySide),
    SClientChangeCipherSpec) :: [])))) :: ((SNone, (((ChSid, C),
    SAskResumeSession) :: ((((HsM KServerHello), S0),
    SResumeSession) :: (((Ccs, AnySide),
    SClientChangeCipherSpec) :: [])))) :: ((SResumeSession, ((((HsM
    KCertificate), S0), SCertificate) :: [])) :: ((SClientHello, ((((HsM
    KServerHelloV13Draft18), S0),
    SClientChangeCipherSpec) :: [])) :: ((SAskResumeSession, (((Ccs, C),
    SAskResumeSession) :: [])) :: ((SClientChangeCipherSpec, ((((HsM
    KNewSessionTicket), S0), SClientChangeCipherSpec) :: [])) :: [])))))))))))

(** val path_edges :
    tlsState -> step list -> (((tlsState * stepmsg) * who) * tlsState) list **)

let rec path_edges from = function
| [] -> []
| s :: t ->
  let (p1, to0) = s in
  let (m, w) = p1 in (((from, m), w), to0) :: (path_edges to0 t)

(** val edges : (((tlsState * stepmsg) * who) * tlsState) list **)

let edges =
  flat_map (fun f -> path_edges (fst f) (snd f)) flows

(** val who_m : who -> bool -> bool **)

let who_m w to_server =
  match w with
  | C -> to_server
  | S0 -> negb to_server
  | AnySide -> true

(** val stepmsg_m : stepmsg -> akind -> bool **)

let stepmsg_m m a =
  match m with
  | HsM k ->
    (match a with
     | AHs (k', _) ->
       (&&) (hs_kind_beq k k') (negb (hs_kind_beq k KClientHello))
     | _ -> false)
  | ChNoSid ->
    (match a with
     | AHs (k, has_sid) ->
       (match k with
        | KClientHello -> if has_sid then false else true
        | _ -> false)
     | _ -> false)
  | ChSid ->
    (match a with
     | AHs (k, has_sid) -> (match k with
                            | KClientHello -> has_sid
                            | _ -> false)
     | _ -> false)
  | Ccs -> (match a with
            | ACcs -> true
            | _ -> false)

(** val find_edge : tlsState -> akind -> bool -> tlsState option **)

let find_edge st a d =
  match find (fun e0 ->
          let (y, _) = e0 in
          let (y1, w) = y in
          let (from, m) = y1 in
          (&&) ((&&) (tlsState_beq from st) (stepmsg_m m a)) (who_m w d))
          edges with
  | Some p0 -> let (_, to0) = p0 in Some to0
  | None -> None

(** val spec_a : tlsState -> akind -> bool -> tlsState option **)

let spec_a st a d =
  match st with
  | SSessionEncrypted -> Some SSessionEncrypted
  | SFinished -> Some SInvalid
  | SInvalid -> Some SInvalid
  | _ ->
    (match a with
     | AHs (k, _) ->
       (match find_edge st a d with
        | Some to0 -> Some to0
        | None ->
          (match k with
           | KHelloRequest -> (match st with
                               | SNone -> None
                               | _ -> Some st)
           | _ -> None))
     | ACcs -> find_edge st a d
     | AAlert warning -> Some (if warning then st else SFinished)
     | _ -> None)

(** val wARNING : n **)

let wARNING =
  Npos XH

(** val spec_transition : tlsState -> mkind -> bool -> tlsState option **)

let spec_transition st m to_server =
  spec_a st (abs_kind wARNING m) to_server

(** val all_entries : (string * entry_fn) list **)

let all_entries =
  app entries_tls
    (app entries_ext (app entries_kx (app entries_dtls spec_entries_tls)))

(** val find_entry :
    byte list -> (string * entry_fn) list -> entry_fn option **)

let rec find_entry name = function
| [] -> None
| p0 :: t ->
  let (n0, f) = p0 in
  if beq_bytes name (str n0) then Some f else find_entry name t

(** val split_last : 'a1 list -> 'a1 list * 'a1 option **)

let rec split_last = function
| [] -> ([], None)
| x :: t ->
  (match t with
   | [] -> ([], (Some x))
   | _ :: _ -> let (a, b) = split_last t in ((x :: a), b))

(** val run_line : byte list -> byte list **)

let run_line line0 =
  match split_on X20 line0 with
  | [] ->
    str (String ((Ascii (false, false, false, true, false, true, false,
      false)), (String ((Ascii (true, false, true, false, false, true, true,
      false)), (String ((Ascii (true, false, true, true, false, true, true,
      false)), (String ((Ascii (false, false, false, false, true, true, true,
      false)), (String ((Ascii (false, false, true, false, true, true, true,
      false)), (String ((Ascii (true, false, false, true, true, true, true,
      false)), (String ((Ascii (true, false, false, true, false, true, false,
      false)), EmptyString))))))))))))))
  | name :: rest ->
    if beq_bytes name
         (str (String ((Ascii (true, true, false, false, true, true, true,
           false)), (String ((Ascii (false, false, true, false, true, true,
           true, false)), (String ((Ascii (true, false, false, false, false,
           true, true, false)), (String ((Ascii (false, false, true, false,
           true, true, true, false)), (String ((Ascii (true, false, true,
           false, false, true, true, false)), (String ((Ascii (true, true,
           false, false, true, true, true, false)), EmptyString)))))))))))))
    then run_states_line tls_state_transition rest
    else if beq_bytes name
              (str (String ((Ascii (true, true, false, false, true, true,
                true, false)), (String ((Ascii (false, false, false, false,
                true, true, true, false)), (String ((Ascii (true, false,
                true, false, false, true, true, false)), (String ((Ascii
                (true, true, false, false, false, true, true, false)),
                (String ((Ascii (false, true, true, true, false, true, false,
                false)), (String ((Ascii (true, true, false, false, true,
                true, true, false)), (String ((Ascii (false, false, true,
                false, true, true, true, false)), (String ((Ascii (true,
                false, false, false, false, true, true, false)), (String
                ((Ascii (false, false, true, false, true, true, true,
                false)), (String ((Ascii (true, false, true, false, false,
                true, true, false)), (String ((Ascii (true, true, false,
                false, true, true, true, false)),
                EmptyString)))))))))))))))))))))))
         then app
                (str (String ((Ascii (true, false, true, true, true, true,
                  false, false)), (String ((Ascii (false, false, false,
                  false, false, true, false, false)), EmptyString)))))
                (run_states_line spec_transition rest)
         else (match find_entry name all_entries with
               | Some f ->
                 let (args, inp) = split_last rest in
                 let b =
                   match inp with
                   | Some h -> if beq_bytes h (X2d :: []) then [] else unhex h
                   | None -> []
                 in
                 f (map parse_dec args) b
               | None ->
                 str (String ((Ascii (false, false, false, true, false, true,
                   false, false)), (String ((Ascii (false, true, true, true,
                   false, true, true, false)), (String ((Ascii (true, true,
                   true, true, false, true, true, false)), (String ((Ascii
                   (true, false, true, false, false, true, true, false)),
                   (String ((Ascii (false, true, true, true, false, true,
                   true, false)), (String ((Ascii (false, false, true, false,
                   true, true, true, false)), (String ((Ascii (false, true,
                   false, false, true, true, true, false)), (String ((Ascii
                   (true, false, false, true, true, true, true, false)),
                   (String ((Ascii (true, false, false, true, false, true,
                   false, false)), EmptyString)))))))))))))))))))

(** val entry_names : byte list list **)

let entry_names =
  map (fun e0 -> str (fst e0)) all_entries

type 'a g = n -> 'a * n

(** val gret : 'a1 -> 'a1 g **)

let gret a s =
  (a, s)

(** val gbind : 'a1 g -> ('a1 -> 'a2 g) -> 'a2 g **)

let gbind g0 k s =
  let (a, s') = g0 s in k a s'

(** val lcg : n -> n **)

let lcg s =
  N.modulo
    (N.add
      (N.mul s (Npos (XI (XO (XI (XI (XO (XI (XO (XO (XI (XI (XI (XI (XI (XI
        (XI (XO (XI (XO (XI (XO (XI (XO (XO (XI (XO (XO (XI (XI (XO (XO (XI
        (XO (XI (XO (XI (XI (XO (XI (XO (XO (XO (XO (XI (XO (XI (XI (XI (XI
        (XI (XO (XO (XO (XI (XO (XI (XO (XO (XO (XO (XI (XI (XO
        XH))))))))))))))))))))))))))))))))))))))))))))))))))))))))))))))))
      (Npos (XI (XI (XI (XI (XO (XO (XI (XO (XI (XO (XO (XO (XO (XO (XO (XI
      (XI (XI (XI (XO (XO (XI (XI (XO (XI (XI (XI (XO (XI (XI (XI (XI (XO (XI
      (XI (XI (XI (XI (XI (XO (XI (XI (XO (XI (XI (XI (XI (XO (XI (XO (XI (XO
      (XO (XO (XO (XO (XO (XO (XI (XO
      XH)))))))))))))))))))))))))))))))))))))))))))))))))))))))))))))) (Npos
    (XO (XO (XO (XO (XO (XO (XO (XO (XO (XO (XO (XO (XO (XO (XO (XO (XO (XO
    (XO (XO (XO (XO (XO (XO (XO (XO (XO (XO (XO (XO (XO (XO (XO (XO (XO (XO
    (XO (XO (XO (XO (XO (XO (XO (XO (XO (XO (XO (XO (XO (XO (XO (XO (XO (XO
    (XO (XO (XO (XO (XO (XO (XO (XO (XO (XO
    XH)))))))))))))))))))))))))))))))))))))))))))))))))))))))))))))))))

(** val rnd : n -> n g **)

let rnd bound s =
  let s1 = lcg s in
  if N.leb bound (Npos (XO (XO (XO (XO (XO (XO (XO (XO (XO (XO (XO (XO (XO
       (XO (XO (XO (XO (XO (XO (XO (XO (XO (XO (XO (XO (XO (XO (XO (XO (XO
       XH)))))))))))))))))))))))))))))))
  then ((N.modulo
          (N.div s1 (Npos (XO (XO (XO (XO (XO (XO (XO (XO (XO (XO (XO (XO (XO
            (XO (XO (XO (XO (XO (XO (XO (XO (XO (XO (XO (XO (XO (XO (XO (XO
            (XO (XO (XO XH))))))))))))))))))))))))))))))))))
          (N.max bound (Npos XH))), s1)
  else let s2 = lcg s1 in
       ((N.modulo
          (N.add
            (N.mul
              (N.div s1 (Npos (XO (XO (XO (XO (XO (XO (XO (XO (XO (XO (XO (XO
                (XO (XO (XO (XO (XO (XO (XO (XO (XO (XO (XO (XO (XO (XO (XO
                (XO (XO (XO (XO (XO XH))))))))))))))))))))))))))))))))))
              (Npos (XO (XO (XO (XO (XO (XO (XO (XO (XO (XO (XO (XO (XO (XO
              (XO (XO (XO (XO (XO (XO (XO (XO (XO (XO (XO (XO (XO (XO (XO (XO
              (XO (XO XH))))))))))))))))))))))))))))))))))
            (N.div s2 (Npos (XO (XO (XO (XO (XO (XO (XO (XO (XO (XO (XO (XO
              (XO (XO (XO (XO (XO (XO (XO (XO (XO (XO (XO (XO (XO (XO (XO (XO
              (XO (XO (XO (XO XH))))))))))))))))))))))))))))))))))) bound),
       s2)

(** val gbool : bool g **)

let gbool =
  gbind (rnd (Npos (XO XH))) (fun x -> gret (N.eqb x (Npos XH)))

(** val gbytes : n -> byte list g **)

let gbytes n0 s =
  let (k, s') =
    rnd (Npos (XO (XO (XO (XO (XO (XO (XO (XO (XO (XO (XO (XO (XO (XO (XO (XO
      XH))))))))))))))))) s
  in
  ((fst
     (N.iter n0 (fun pat ->
       let (acc, st) = pat in
       let st' =
         N.modulo
           (N.add
             (N.mul st (Npos (XI (XI (XI (XI (XO (XO (XI (XO (XO (XO
               XH)))))))))))) (Npos (XI (XO (XO (XI (XI (XI (XO (XO (XO (XO
             (XO (XO (XI XH))))))))))))))) (Npos (XO (XO (XO (XO (XO (XO (XO
           (XO (XO (XO (XO (XO (XO (XO (XO (XO XH)))))))))))))))))
       in
       (((n2b (N.div st' (Npos (XO (XO (XO (XO (XO (XO (XO (XO XH))))))))))) :: acc),
       st')) ([], k))), s')

(** val glist : nat -> 'a1 g -> 'a1 list g **)

let rec glist n0 g0 =
  match n0 with
  | O -> gret []
  | S n' -> gbind g0 (fun x -> gbind (glist n' g0) (fun l -> gret (x :: l)))

(** val oneof : 'a1 g -> 'a1 g list -> 'a1 g **)

let oneof d l =
  gbind (rnd (lenN l)) (fun k -> nth (N.to_nat k) l d)

(** val pick_w : 'a1 g -> (n * 'a1 g) list -> n -> 'a1 g **)

let rec pick_w d l k =
  match l with
  | [] -> d
  | p0 :: t ->
    let (w, g0) = p0 in if N.ltb k w then g0 else pick_w d t (N.sub k w)

(** val freq : 'a1 g -> (n * 'a1 g) list -> 'a1 g **)

let freq d l =
  gbind (rnd (fold_right (fun p0 acc -> N.add (fst p0) acc) N0 l)) (fun k ->
    pick_w d l k)

(** val elem : n -> n list -> n g **)

let elem d l =
  gbind (rnd (lenN l)) (fun k -> gret (nth (N.to_nat k) l d))

(** val gsize : n -> n g **)

let gsize max0 =
  freq (gret N0) (((Npos (XO XH)), (gret N0)) :: (((Npos (XO XH)),
    (gret (Npos XH))) :: (((Npos XH), (gret (Npos (XO XH)))) :: (((Npos (XO
    (XI XH))),
    (rnd (N.min (Npos (XI (XO (XO (XO XH))))) (N.add max0 (Npos XH))))) :: (((Npos
    (XI XH)),
    (rnd
      (N.min (Npos (XO (XO (XI (XI (XO (XI (XO (XO XH)))))))))
        (N.add max0 (Npos XH))))) :: (((Npos XH),
    (gret (N.sub max0 (Npos XH)))) :: (((Npos XH), (gret max0)) :: [])))))))

(** val gsmall : n -> n g **)

let gsmall max0 =
  freq (gret N0) (((Npos (XO XH)), (gret N0)) :: (((Npos (XO XH)),
    (gret (Npos XH))) :: (((Npos (XO (XI XH))),
    (rnd (N.min (Npos (XI (XO (XO XH)))) (N.add max0 (Npos XH))))) :: (((Npos
    XH),
    (rnd (N.min (Npos (XO (XO (XO (XI (XO XH)))))) (N.add max0 (Npos XH))))) :: []))))

(** val gint : n -> n g **)

let gint bits =
  let top = N.pow (Npos (XO XH)) bits in
  freq (gret N0) (((Npos (XO XH)), (gret N0)) :: (((Npos (XO XH)),
    (gret (Npos XH))) :: (((Npos (XO XH)),
    (gret (N.sub top (Npos XH)))) :: (((Npos XH),
    (gret (N.div top (Npos (XO XH))))) :: (((Npos XH),
    (gret (N.sub (N.div top (Npos (XO XH))) (Npos XH)))) :: (((Npos XH),
    (gret (N.modulo (Npos (XI (XI (XI (XI (XI (XI (XI XH)))))))) top))) :: (((Npos
    XH),
    (gret (N.modulo (Npos (XO (XO (XO (XO (XO (XO (XO (XO XH))))))))) top))) :: (((Npos
    (XO (XO (XO XH)))), (rnd top)) :: []))))))))

(** val gslice : n -> slice g **)

let gslice n0 =
  gbind (gbytes n0) (fun b -> gret { off = N0; bytes = b })

(** val gopt : 'a1 g -> 'a1 option g **)

let gopt g0 =
  gbind gbool (fun b ->
    if b then gbind g0 (fun x -> gret (Some x)) else gret None)

(** val vec8 : byte list -> byte list **)

let vec8 b =
  app (u8 (lenN b)) b

(** val vec16 : byte list -> byte list **)

let vec16 b =
  app (u16 (lenN b)) b

(** val vec24 : byte list -> byte list **)

let vec24 b =
  app (u24 (lenN b)) b

(** val cat : ('a1 -> byte list) -> 'a1 list -> byte list **)

let cat f l =
  concat (map f l)

(** val enc_sid : slice option -> byte list **)

let enc_sid = function
| Some s0 -> vec8 s0.bytes
| None -> u8 N0

(** val enc_optext : slice option -> byte list **)

let enc_optext = function
| Some e2 -> vec16 e2.bytes
| None -> []

(** val enc_client_hello : clientHelloC -> byte list **)

let enc_client_hello c0 =
  app (u16 c0.ch_version)
    (app c0.ch_random.bytes
      (app (enc_sid c0.ch_sid)
        (app (vec16 (cat u16 c0.ch_ciphers))
          (app (vec8 (cat u8 c0.ch_comp)) (enc_optext c0.ch_ext)))))

(** val enc_server_hello : serverHelloC -> byte list **)

let enc_server_hello c0 =
  app (u16 c0.sh_version)
    (app c0.sh_random.bytes
      (app (enc_sid c0.sh_sid)
        (app (u16 c0.sh_cipher) (app (u8 c0.sh_comp) (enc_optext c0.sh_ext)))))

(** val enc_cert_request : certRequestC -> byte list **)

let enc_cert_request c0 =
  app (vec8 (cat u8 c0.cr_types))
    (app (match c0.cr_sigalgs with
          | Some l -> vec16 (cat u16 l)
          | None -> []) (vec16 (cat (fun s -> vec16 s.bytes) c0.cr_ca)))

(** val hs_type : tlsMessageHandshake -> n **)

let hs_type = function
| HHelloRequest -> N0
| HClientHello _ -> Npos XH
| HNewSessionTicket (_, _) -> Npos (XO (XO XH))
| HEndOfEarlyData -> Npos (XI (XO XH))
| HHelloRetryRequest _ -> Npos (XO (XI XH))
| HCertificate _ -> Npos (XI (XI (XO XH)))
| HServerKeyExchange _ -> Npos (XO (XO (XI XH)))
| HCertificateRequest _ -> Npos (XI (XO (XI XH)))
| HServerDone _ -> Npos (XO (XI (XI XH)))
| HCertificateVerify _ -> Npos (XI (XI (XI XH)))
| HClientKeyExchange _ -> Npos (XO (XO (XO (XO XH))))
| HFinished _ -> Npos (XO (XO (XI (XO XH))))
| HCertificateStatus (_, _) -> Npos (XO (XI (XI (XO XH))))
| HNextProtocol (_, _) -> Npos (XI (XI (XO (XO (XO (XO XH))))))
| HKeyUpdate _ -> Npos (XO (XO (XO (XI XH))))
| _ -> Npos (XO XH)

(** val enc_hs_body : tlsMessageHandshake -> byte list **)

let enc_hs_body = function
| HClientHello c0 -> enc_client_hello c0
| HServerHello c0 -> enc_server_hello c0
| HServerHelloV13Draft18 c0 ->
  app (u16 c0.sh13_version)
    (app c0.sh13_random.bytes
      (app (u16 c0.sh13_cipher) (enc_optext c0.sh13_ext)))
| HNewSessionTicket (hint, t) -> app (u32 hint) t.bytes
| HHelloRetryRequest c0 ->
  app (u16 c0.hrr_version) (app (u16 c0.hrr_cipher) (enc_optext c0.hrr_ext))
| HCertificate l -> vec24 (cat (fun s -> vec24 s.bytes) l)
| HServerKeyExchange s -> s.bytes
| HCertificateRequest c0 -> enc_cert_request c0
| HServerDone s -> s.bytes
| HCertificateVerify s -> s.bytes
| HClientKeyExchange c0 ->
  (match c0 with
   | CkeDh s -> vec16 s.bytes
   | CkeEcdh s -> vec8 s.bytes
   | CkeUnknown s -> s.bytes)
| HFinished s -> s.bytes
| HCertificateStatus (t, b) -> app (u8 t) (vec24 b.bytes)
| HNextProtocol (a, b) -> app (vec8 a.bytes) (vec8 b.bytes)
| HKeyUpdate v -> u8 v
| _ -> []

(** val enc_handshake : tlsMessageHandshake -> byte list **)

let enc_handshake h =
  app (u8 (hs_type h)) (vec24 (enc_hs_body h))

(** val enc_msg : tlsMessage -> byte list **)

let enc_msg = function
| MHandshake h -> enc_handshake h
| MChangeCipherSpec -> u8 (Npos XH)
| MAlert (s, c0) -> app (u8 s) (u8 c0)
| MApplicationData b -> b.bytes
| MHeartbeat (t, l, p0) -> app (u8 t) (app (u16 l) p0.bytes)

(** val enc_record : n -> n -> byte list -> byte list **)

let enc_record ty ver payload =
  app (u8 ty) (app (u16 ver) (vec16 payload))

(** val grandom32 : slice g **)

let grandom32 =
  gslice (Npos (XO (XO (XO (XO (XO XH))))))

(** val gsid : slice option g **)

let gsid =
  freq (gret None) (((Npos (XI XH)), (gret None)) :: (((Npos XH),
    (gbind (gslice (Npos XH)) (fun s -> gret (Some s)))) :: (((Npos (XO XH)),
    (gbind (gslice (Npos (XO (XO (XO (XO (XO XH))))))) (fun s ->
      gret (Some s)))) :: (((Npos (XO XH)),
    (gbind (rnd (Npos (XO (XO (XO (XO (XO XH))))))) (fun n0 ->
      gbind (gslice (N.add n0 (Npos XH))) (fun s -> gret (Some s))))) :: []))))

(** val gu16list : n -> n list g **)

let gu16list maxn =
  gbind (gsmall maxn) (fun n0 ->
    glist (N.to_nat n0) (gint (Npos (XO (XO (XO (XO XH)))))))

(** val gu8list : n -> n list g **)

let gu8list maxn =
  gbind (gsmall maxn) (fun n0 ->
    glist (N.to_nat n0) (gint (Npos (XO (XO (XO XH))))))

(** val gblob : n -> slice g **)

let gblob max0 =
  gbind (gsize max0) gslice

(** val gsmallblob : slice g **)

let gsmallblob =
  gbind (gsmall (Npos (XO (XO (XI (XI (XI XH))))))) gslice

(** val gext : slice option g **)

let gext =
  freq (gret None) (((Npos (XO XH)), (gret None)) :: (((Npos XH),
    (gret (Some { off = N0; bytes = [] }))) :: (((Npos (XI XH)),
    (gbind gsmallblob (fun s -> gret (Some s)))) :: [])))

(** val gversion : n g **)

let gversion =
  freq (gret (Npos (XI (XI (XO (XO (XO (XO (XO (XO (XI XH))))))))))) (((Npos
    (XO (XO XH))),
    (elem (Npos (XI (XI (XO (XO (XO (XO (XO (XO (XI XH)))))))))) ((Npos (XO
      (XO (XO (XO (XO (XO (XO (XO (XI XH)))))))))) :: ((Npos (XI (XO (XO (XO
      (XO (XO (XO (XO (XI XH)))))))))) :: ((Npos (XO (XI (XO (XO (XO (XO (XO
      (XO (XI XH)))))))))) :: ((Npos (XI (XI (XO (XO (XO (XO (XO (XO (XI
      XH)))))))))) :: ((Npos (XO (XO (XI (XO (XO (XO (XO (XO (XI
      XH)))))))))) :: ((Npos (XO (XI (XO (XO (XI (XO (XO (XO (XI (XI (XI (XI
      (XI (XI XH))))))))))))))) :: ((Npos (XI (XI (XI (XI (XI (XI (XI (XI (XO
      (XI (XI (XI (XI (XI (XI XH)))))))))))))))) :: ((Npos (XI (XO (XI (XI
      (XI (XI (XI (XI (XO (XI (XI (XI (XI (XI (XI
      XH)))))))))))))))) :: [])))))))))) :: (((Npos (XO XH)),
    (gint (Npos (XO (XO (XO (XO XH))))))) :: []))

(** val gclient_hello : clientHelloC g **)

let gclient_hello =
  gbind gversion (fun v ->
    gbind grandom32 (fun r ->
      gbind gsid (fun sid ->
        gbind (gu16list (Npos (XO (XO (XO (XI (XO XH))))))) (fun c0 ->
          gbind (gu8list (Npos (XI (XO XH)))) (fun co ->
            gbind gext (fun e0 ->
              gret { ch_version = v; ch_random = r; ch_sid = sid;
                ch_ciphers = c0; ch_comp = co; ch_ext = e0 }))))))

(** val gserver_hello : serverHelloC g **)

let gserver_hello =
  gbind
    (elem (Npos (XI (XI (XO (XO (XO (XO (XO (XO (XI XH)))))))))) ((Npos (XO
      (XO (XO (XO (XO (XO (XO (XO (XI XH)))))))))) :: ((Npos (XI (XO (XO (XO
      (XO (XO (XO (XO (XI XH)))))))))) :: ((Npos (XO (XI (XO (XO (XO (XO (XO
      (XO (XI XH)))))))))) :: ((Npos (XI (XI (XO (XO (XO (XO (XO (XO (XI
      XH)))))))))) :: []))))) (fun v ->
    gbind grandom32 (fun r ->
      gbind gsid (fun sid ->
        gbind (gint (Npos (XO (XO (XO (XO XH)))))) (fun c0 ->
          gbind (gint (Npos (XO (XO (XO XH))))) (fun co ->
            gbind gext (fun e0 ->
              gret { sh_version = v; sh_random = r; sh_sid = sid; sh_cipher =
                c0; sh_comp = co; sh_ext =
                (if N.eqb v (Npos (XO (XO (XO (XO (XO (XO (XO (XO (XI
                      XH))))))))))
                 then None
                 else e0) }))))))

(** val gcert_request : certRequestC g **)

let gcert_request =
  gbind (gu8list (Npos (XO (XI XH)))) (fun t ->
    gbind (gopt (gu16list (Npos (XO (XO (XO XH)))))) (fun sa ->
      gbind (gsmall (Npos (XO (XO XH)))) (fun n0 ->
        gbind (glist (N.to_nat n0) gsmallblob) (fun ca ->
          gret { cr_types = t; cr_sigalgs = sa; cr_ca = ca }))))

(** val ghandshake : tlsMessageHandshake g **)

let ghandshake =
  oneof (gret HHelloRequest)
    ((gret HHelloRequest) :: ((gbind gclient_hello (fun c0 ->
                                gret (HClientHello c0))) :: ((gbind
                                                               gserver_hello
                                                               (fun c0 ->
                                                               gret
                                                                 (HServerHello
                                                                 c0))) :: (
    (gbind grandom32 (fun r ->
      gbind (gint (Npos (XO (XO (XO (XO XH)))))) (fun c0 ->
        gbind gext (fun e0 ->
          gret (HServerHelloV13Draft18 { sh13_version = (Npos (XO (XI (XO (XO
            (XI (XO (XO (XO (XI (XI (XI (XI (XI (XI XH)))))))))))))));
            sh13_random = r; sh13_cipher = c0; sh13_ext = e0 }))))) :: (
    (gbind (gint (Npos (XO (XO (XO (XO (XO XH))))))) (fun h ->
      gbind gsmallblob (fun t -> gret (HNewSessionTicket (h, t))))) :: (
    (gret HEndOfEarlyData) :: ((gbind gversion (fun v ->
                                 gbind (gint (Npos (XO (XO (XO (XO XH))))))
                                   (fun c0 ->
                                   gbind gext (fun e0 ->
                                     gret (HHelloRetryRequest { hrr_version =
                                       v; hrr_cipher = c0; hrr_ext = e0 }))))) :: (
    (gbind (gsmall (Npos (XO (XO XH)))) (fun n0 ->
      gbind (glist (N.to_nat n0) gsmallblob) (fun l -> gret (HCertificate l)))) :: (
    (gbind gsmallblob (fun s -> gret (HServerKeyExchange s))) :: ((gbind
                                                                    gcert_request
                                                                    (fun c0 ->
                                                                    gret
                                                                    (HCertificateRequest
                                                                    c0))) :: (
    (gbind gsmallblob (fun s -> gret (HServerDone s))) :: ((gbind gsmallblob
                                                             (fun s ->
                                                             gret
                                                               (HCertificateVerify
                                                               s))) :: (
    (gbind gsmallblob (fun s -> gret (HClientKeyExchange (CkeUnknown s)))) :: (
    (gbind gsmallblob (fun s -> gret (HFinished s))) :: ((gbind
                                                           (gint (Npos (XO
                                                             (XO (XO XH)))))
                                                           (fun t ->
                                                           gbind gsmallblob
                                                             (fun b ->
                                                             gret
                                                               (HCertificateStatus
                                                               (t, b))))) :: (
    (gbind gsmallblob (fun a ->
      gbind gsmallblob (fun b -> gret (HNextProtocol (a, b))))) :: ((gbind
                                                                    (gint
                                                                    (Npos (XO
                                                                    (XO (XO
                                                                    XH)))))
                                                                    (fun v ->
                                                                    gret
                                                                    (HKeyUpdate
                                                                    v))) :: [])))))))))))))))))

(** val gpayload : ((n * tlsMessage list) * byte list) g **)

let gpayload =
  oneof
    (gret (((Npos (XO (XO (XI (XO XH))))), (MChangeCipherSpec :: [])), []))
    ((gbind (rnd (Npos (XI XH))) (fun n0 ->
       gret (((Npos (XO (XO (XI (XO XH))))),
         (repeat MChangeCipherSpec (N.to_nat (N.add n0 (Npos XH))))), []))) :: (
    (gbind (rnd (Npos (XI XH))) (fun n0 ->
      gbind
        (glist (N.to_nat (N.add n0 (Npos XH)))
          (gbind (gint (Npos (XO (XO (XO XH))))) (fun s ->
            gbind (gint (Npos (XO (XO (XO XH))))) (fun c0 ->
              gret (MAlert (s, c0)))))) (fun l ->
        gret (((Npos (XI (XO (XI (XO XH))))), l), [])))) :: ((gbind
                                                               (rnd (Npos (XI
                                                                 XH)))
                                                               (fun n0 ->
                                                               gbind
                                                                 (glist
                                                                   (N.to_nat
                                                                    (N.add n0
                                                                    (Npos XH)))
                                                                   (gbind
                                                                    ghandshake
                                                                    (fun h ->
                                                                    gret
                                                                    (MHandshake
                                                                    h))))
                                                                 (fun l ->
                                                                 gret (((Npos
                                                                   (XO (XI
                                                                   (XI (XO
                                                                   XH))))),
                                                                   l), [])))) :: (
    (gbind (gblob (Npos (XO (XO (XO (XO (XI (XO (XO (XI XH))))))))))
      (fun b ->
      gret (((Npos (XI (XI (XI (XO XH))))), ((MApplicationData b) :: [])), []))) :: (
    (gbind (gint (Npos (XO (XO (XO XH))))) (fun t ->
      gbind gsmallblob (fun p0 ->
        gbind (gsmall (Npos (XO (XO (XI (XO XH)))))) (fun pad ->
          gbind (gbytes pad) (fun padb ->
            gret (((Npos (XO (XO (XO (XI XH))))), ((MHeartbeat (t, (slen p0),
              p0)) :: [])), padb)))))) :: [])))))

(** val line : string -> n list -> byte list -> byte list **)

let line entry args input =
  app (str entry)
    (app (concat (map (fun a -> X20 :: (dec a)) args))
      (X20 :: (match input with
               | [] -> X2d :: []
               | _ :: _ -> hex input)))

type case = byte list * byte list

(** val mk_case :
    string -> n list -> byte list -> ('a1 -> sx) -> (byte list * 'a1) option
    -> case **)

let mk_case entry args input f expect =
  ((line entry args input),
    (match expect with
     | Some p0 ->
       let (rest, v) = p0 in show_res f (Ok ({ off = N0; bytes = rest }, v))
     | None -> []))

(** val gsuffix : byte list g **)

let gsuffix =
  freq (gret []) (((Npos (XI XH)), (gret [])) :: (((Npos (XO XH)),
    (gbind (gsmall (Npos (XO (XO (XI (XO XH)))))) gbytes)) :: []))

(** val gcase_record : case list g **)

let gcase_record =
  gbind gpayload (fun pl ->
    let (p0, pad) = pl in
    let (ct, msgs) = p0 in
    gbind gversion (fun ver ->
      gbind gsuffix (fun suf ->
        let payload = app (cat enc_msg msgs) pad in
        let hdr = { h_type = ct; h_version = ver; h_len = (lenN payload) } in
        let rec0 = enc_record ct ver payload in
        gret
          ((mk_case (String ((Ascii (false, false, false, false, true, true,
             true, false)), (String ((Ascii (true, false, false, false,
             false, true, true, false)), (String ((Ascii (false, true, false,
             false, true, true, true, false)), (String ((Ascii (true, true,
             false, false, true, true, true, false)), (String ((Ascii (true,
             false, true, false, false, true, true, false)), (String ((Ascii
             (true, true, true, true, true, false, true, false)), (String
             ((Ascii (false, false, true, false, true, true, true, false)),
             (String ((Ascii (false, false, true, true, false, true, true,
             false)), (String ((Ascii (true, true, false, false, true, true,
             true, false)), (String ((Ascii (true, true, true, true, true,
             false, true, false)), (String ((Ascii (false, false, false,
             false, true, true, true, false)), (String ((Ascii (false, false,
             true, true, false, true, true, false)), (String ((Ascii (true,
             false, false, false, false, true, true, false)), (String ((Ascii
             (true, false, false, true, false, true, true, false)), (String
             ((Ascii (false, true, true, true, false, true, true, false)),
             (String ((Ascii (false, false, true, false, true, true, true,
             false)), (String ((Ascii (true, false, true, false, false, true,
             true, false)), (String ((Ascii (false, false, false, true, true,
             true, true, false)), (String ((Ascii (false, false, true, false,
             true, true, true, false)),
             EmptyString)))))))))))))))))))))))))))))))))))))) []
             (app rec0 suf) sx_plain (Some (suf, { p_hdr = hdr; p_msg =
             msgs }))) :: ((mk_case (String ((Ascii (false, false, false,
                             false, true, true, true, false)), (String
                             ((Ascii (true, false, false, false, false, true,
                             true, false)), (String ((Ascii (false, true,
                             false, false, true, true, true, false)), (String
                             ((Ascii (true, true, false, false, true, true,
                             true, false)), (String ((Ascii (true, false,
                             true, false, false, true, true, false)), (String
                             ((Ascii (true, true, true, true, true, false,
                             true, false)), (String ((Ascii (false, false,
                             true, false, true, true, true, false)), (String
                             ((Ascii (false, false, true, true, false, true,
                             true, false)), (String ((Ascii (true, true,
                             false, false, true, true, true, false)), (String
                             ((Ascii (true, true, true, true, true, false,
                             true, false)), (String ((Ascii (false, true,
                             false, false, true, true, true, false)), (String
                             ((Ascii (true, false, false, false, false, true,
                             true, false)), (String ((Ascii (true, true,
                             true, false, true, true, true, false)), (String
                             ((Ascii (true, true, true, true, true, false,
                             true, false)), (String ((Ascii (false, true,
                             false, false, true, true, true, false)), (String
                             ((Ascii (true, false, true, false, false, true,
                             true, false)), (String ((Ascii (true, true,
                             false, false, false, true, true, false)),
                             (String ((Ascii (true, true, true, true, false,
                             true, true, false)), (String ((Ascii (false,
                             true, false, false, true, true, true, false)),
                             (String ((Ascii (false, false, true, false,
                             false, true, true, false)),
                             EmptyString))))))))))))))))))))))))))))))))))))))))
                             [] (app rec0 suf) sx_raw (Some (suf, { r_hdr =
                             hdr; r_data = { off = N0; bytes = payload } }))) :: (
          (mk_case (String ((Ascii (false, false, false, false, true, true,
            true, false)), (String ((Ascii (true, false, false, false, false,
            true, true, false)), (String ((Ascii (false, true, false, false,
            true, true, true, false)), (String ((Ascii (true, true, false,
            false, true, true, true, false)), (String ((Ascii (true, false,
            true, false, false, true, true, false)), (String ((Ascii (true,
            true, true, true, true, false, true, false)), (String ((Ascii
            (false, false, true, false, true, true, true, false)), (String
            ((Ascii (false, false, true, true, false, true, true, false)),
            (String ((Ascii (true, true, false, false, true, true, true,
            false)), (String ((Ascii (true, true, true, true, true, false,
            true, false)), (String ((Ascii (true, false, true, false, false,
            true, true, false)), (String ((Ascii (false, true, true, true,
            false, true, true, false)), (String ((Ascii (true, true, false,
            false, false, true, true, false)), (String ((Ascii (false, true,
            false, false, true, true, true, false)), (String ((Ascii (true,
            false, false, true, true, true, true, false)), (String ((Ascii
            (false, false, false, false, true, true, true, false)), (String
            ((Ascii (false, false, true, false, true, true, true, false)),
            (String ((Ascii (true, false, true, false, false, true, true,
            false)), (String ((Ascii (false, false, true, false, false, true,
            true, false)), EmptyString))))))))))))))))))))))))))))))))))))))
            [] (app rec0 suf) sx_enc (Some (suf, { e_hdr = hdr; e_blob =
            { off = N0; bytes = payload } }))) :: ((mk_case (String ((Ascii
                                                     (false, false, false,
                                                     false, true, true, true,
                                                     false)), (String ((Ascii
                                                     (true, false, false,
                                                     false, false, true,
                                                     true, false)), (String
                                                     ((Ascii (false, true,
                                                     false, false, true,
                                                     true, true, false)),
                                                     (String ((Ascii (true,
                                                     true, false, false,
                                                     true, true, true,
                                                     false)), (String ((Ascii
                                                     (true, false, true,
                                                     false, false, true,
                                                     true, false)), (String
                                                     ((Ascii (true, true,
                                                     true, true, true, false,
                                                     true, false)), (String
                                                     ((Ascii (false, false,
                                                     true, false, true, true,
                                                     true, false)), (String
                                                     ((Ascii (false, false,
                                                     true, true, false, true,
                                                     true, false)), (String
                                                     ((Ascii (true, true,
                                                     false, false, true,
                                                     true, true, false)),
                                                     (String ((Ascii (true,
                                                     true, true, true, true,
                                                     false, true, false)),
                                                     (String ((Ascii (false,
                                                     true, false, false,
                                                     true, true, true,
                                                     false)), (String ((Ascii
                                                     (true, false, true,
                                                     false, false, true,
                                                     true, false)), (String
                                                     ((Ascii (true, true,
                                                     false, false, false,
                                                     true, true, false)),
                                                     (String ((Ascii (true,
                                                     true, true, true, false,
                                                     true, true, false)),
                                                     (String ((Ascii (false,
                                                     true, false, false,
                                                     true, true, true,
                                                     false)), (String ((Ascii
                                                     (false, false, true,
                                                     false, false, true,
                                                     true, false)), (String
                                                     ((Ascii (true, true,
                                                     true, true, true, false,
                                                     true, false)), (String
                                                     ((Ascii (true, true,
                                                     true, false, true, true,
                                                     true, false)), (String
                                                     ((Ascii (true, false,
                                                     false, true, false,
                                                     true, true, false)),
                                                     (String ((Ascii (false,
                                                     false, true, false,
                                                     true, true, true,
                                                     false)), (String ((Ascii
                                                     (false, false, false,
                                                     true, false, true, true,
                                                     false)), (String ((Ascii
                                                     (true, true, true, true,
                                                     true, false, true,
                                                     false)), (String ((Ascii
                                                     (false, false, false,
                                                     true, false, true, true,
                                                     false)), (String ((Ascii
                                                     (true, false, true,
                                                     false, false, true,
                                                     true, false)), (String
                                                     ((Ascii (true, false,
                                                     false, false, false,
                                                     true, true, false)),
                                                     (String ((Ascii (false,
                                                     false, true, false,
                                                     false, true, true,
                                                     false)), (String ((Ascii
                                                     (true, false, true,
                                                     false, false, true,
                                                     true, false)), (String
                                                     ((Ascii (false, true,
                                                     false, false, true,
                                                     true, true, false)),
                                                     EmptyString))))))))))))))))))))))))))))))))))))))))))))))))))))))))
                                                     (ct :: (ver :: (
                                                     (lenN payload) :: [])))
                                                     payload (slist sx_msg)
                                                     (Some (pad, msgs))) :: [])))))))

(** val gcase_opaque : case list g **)

let gcase_opaque =
  gbind (gint (Npos (XO (XO (XO XH))))) (fun ct ->
    gbind (gint (Npos (XO (XO (XO (XO XH)))))) (fun ver ->
      gbind
        (freq (gret N0) (((Npos (XO (XI XH))),
          (gsize (Npos (XO (XO (XO (XO (XO (XO (XO (XO (XI (XO (XO (XO (XO
            (XO XH))))))))))))))))) :: (((Npos XH),
          (gret (Npos (XO (XO (XO (XO (XO (XO (XO (XO (XO (XO (XO (XO (XO (XO
            XH))))))))))))))))) :: (((Npos XH),
          (gret (Npos (XI (XO (XO (XO (XO (XO (XO (XO (XO (XO (XO (XO (XO (XO
            XH))))))))))))))))) :: [])))) (fun n0 ->
        gbind (gbytes n0) (fun p0 ->
          gbind gsuffix (fun suf ->
            let hdr = { h_type = ct; h_version = ver; h_len = n0 } in
            let rec0 = enc_record ct ver p0 in
            gret
              ((mk_case (String ((Ascii (false, false, false, false, true,
                 true, true, false)), (String ((Ascii (true, false, false,
                 false, false, true, true, false)), (String ((Ascii (false,
                 true, false, false, true, true, true, false)), (String
                 ((Ascii (true, true, false, false, true, true, true,
                 false)), (String ((Ascii (true, false, true, false, false,
                 true, true, false)), (String ((Ascii (true, true, true,
                 true, true, false, true, false)), (String ((Ascii (false,
                 false, true, false, true, true, true, false)), (String
                 ((Ascii (false, false, true, true, false, true, true,
                 false)), (String ((Ascii (true, true, false, false, true,
                 true, true, false)), (String ((Ascii (true, true, true,
                 true, true, false, true, false)), (String ((Ascii (false,
                 true, false, false, true, true, true, false)), (String
                 ((Ascii (true, false, false, false, false, true, true,
                 false)), (String ((Ascii (true, true, true, false, true,
                 true, true, false)), (String ((Ascii (true, true, true,
                 true, true, false, true, false)), (String ((Ascii (false,
                 true, false, false, true, true, true, false)), (String
                 ((Ascii (true, false, true, false, false, true, true,
                 false)), (String ((Ascii (true, true, false, false, false,
                 true, true, false)), (String ((Ascii (true, true, true,
                 true, false, true, true, false)), (String ((Ascii (false,
                 true, false, false, true, true, true, false)), (String
                 ((Ascii (false, false, true, false, false, true, true,
                 false)), EmptyString))))))))))))))))))))))))))))))))))))))))
                 [] (app rec0 suf) sx_raw (Some (suf, { r_hdr = hdr; r_data =
                 { off = N0; bytes = p0 } }))) :: ((mk_case (String ((Ascii
                                                     (false, false, false,
                                                     false, true, true, true,
                                                     false)), (String ((Ascii
                                                     (true, false, false,
                                                     false, false, true,
                                                     true, false)), (String
                                                     ((Ascii (false, true,
                                                     false, false, true,
                                                     true, true, false)),
                                                     (String ((Ascii (true,
                                                     true, false, false,
                                                     true, true, true,
                                                     false)), (String ((Ascii
                                                     (true, false, true,
                                                     false, false, true,
                                                     true, false)), (String
                                                     ((Ascii (true, true,
                                                     true, true, true, false,
                                                     true, false)), (String
                                                     ((Ascii (false, false,
                                                     true, false, true, true,
                                                     true, false)), (String
                                                     ((Ascii (false, false,
                                                     true, true, false, true,
                                                     true, false)), (String
                                                     ((Ascii (true, true,
                                                     false, false, true,
                                                     true, true, false)),
                                                     (String ((Ascii (true,
                                                     true, true, true, true,
                                                     false, true, false)),
                                                     (String ((Ascii (true,
                                                     false, true, false,
                                                     false, true, true,
                                                     false)), (String ((Ascii
                                                     (false, true, true,
                                                     true, false, true, true,
                                                     false)), (String ((Ascii
                                                     (true, true, false,
                                                     false, false, true,
                                                     true, false)), (String
                                                     ((Ascii (false, true,
                                                     false, false, true,
                                                     true, true, false)),
                                                     (String ((Ascii (true,
                                                     false, false, true,
                                                     true, true, true,
                                                     false)), (String ((Ascii
                                                     (false, false, false,
                                                     false, true, true, true,
                                                     false)), (String ((Ascii
                                                     (false, false, true,
                                                     false, true, true, true,
                                                     false)), (String ((Ascii
                                                     (true, false, true,
                                                     false, false, true,
                                                     true, false)), (String
                                                     ((Ascii (false, false,
                                                     true, false, false,
                                                     true, true, false)),
                                                     EmptyString))))))))))))))))))))))))))))))))))))))
                                                     [] (app rec0 suf) sx_enc
                                                     (Some (suf, { e_hdr =
                                                     hdr; e_blob = { off =
                                                     N0; bytes = p0 } }))) :: (
              (mk_case (String ((Ascii (false, false, false, false, true,
                true, true, false)), (String ((Ascii (true, false, false,
                false, false, true, true, false)), (String ((Ascii (false,
                true, false, false, true, true, true, false)), (String
                ((Ascii (true, true, false, false, true, true, true, false)),
                (String ((Ascii (true, false, true, false, false, true, true,
                false)), (String ((Ascii (true, true, true, true, true,
                false, true, false)), (String ((Ascii (false, false, true,
                false, true, true, true, false)), (String ((Ascii (false,
                false, true, true, false, true, true, false)), (String
                ((Ascii (true, true, false, false, true, true, true, false)),
                (String ((Ascii (true, true, true, true, true, false, true,
                false)), (String ((Ascii (false, false, false, false, true,
                true, true, false)), (String ((Ascii (false, false, true,
                true, false, true, true, false)), (String ((Ascii (true,
                false, false, false, false, true, true, false)), (String
                ((Ascii (true, false, false, true, false, true, true,
                false)), (String ((Ascii (false, true, true, true, false,
                true, true, false)), (String ((Ascii (false, false, true,
                false, true, true, true, false)), (String ((Ascii (true,
                false, true, false, false, true, true, false)), (String
                ((Ascii (false, false, false, true, true, true, true,
                false)), (String ((Ascii (false, false, true, false, true,
                true, true, false)),
                EmptyString)))))))))))))))))))))))))))))))))))))) []
                (app rec0 suf) sx_plain None) :: []))))))))

(** val gcase_toolarge : case list g **)

let gcase_toolarge =
  gbind (gint (Npos (XO (XO (XO XH))))) (fun ct ->
    gbind (gint (Npos (XO (XO (XO (XO XH)))))) (fun ver ->
      gbind
        (freq
          (gret (Npos (XI (XO (XO (XO (XO (XO (XO (XO (XI (XO (XO (XO (XO (XO
            XH)))))))))))))))) (((Npos (XO XH)),
          (gret (Npos (XI (XO (XO (XO (XO (XO (XO (XO (XI (XO (XO (XO (XO (XO
            XH))))))))))))))))) :: (((Npos XH),
          (gret (Npos (XI (XI (XI (XI (XI (XI (XI (XI (XI (XI (XI (XI (XI (XI
            (XI XH)))))))))))))))))) :: (((Npos (XI XH)),
          (gbind
            (rnd
              (N.sub (Npos (XI (XI (XI (XI (XI (XI (XI (XI (XI (XI (XI (XI
                (XI (XI (XI XH)))))))))))))))) (Npos (XO (XO (XO (XO (XO (XO
                (XO (XO (XI (XO (XO (XO (XO (XO XH))))))))))))))))) (fun k ->
            gret
              (N.add (Npos (XI (XO (XO (XO (XO (XO (XO (XO (XI (XO (XO (XO
                (XO (XO XH))))))))))))))) k)))) :: [])))) (fun n0 ->
        gbind (gsmall (Npos (XO (XO (XO (XI (XO XH))))))) (fun k ->
          gbind (gbytes k) (fun p0 ->
            let input = app (u8 ct) (app (u16 ver) (app (u16 n0) p0)) in
            gret
              ((mk_case (String ((Ascii (false, false, false, false, true,
                 true, true, false)), (String ((Ascii (true, false, false,
                 false, false, true, true, false)), (String ((Ascii (false,
                 true, false, false, true, true, true, false)), (String
                 ((Ascii (true, true, false, false, true, true, true,
                 false)), (String ((Ascii (true, false, true, false, false,
                 true, true, false)), (String ((Ascii (true, true, true,
                 true, true, false, true, false)), (String ((Ascii (false,
                 false, true, false, true, true, true, false)), (String
                 ((Ascii (false, false, true, true, false, true, true,
                 false)), (String ((Ascii (true, true, false, false, true,
                 true, true, false)), (String ((Ascii (true, true, true,
                 true, true, false, true, false)), (String ((Ascii (false,
                 true, false, false, true, true, true, false)), (String
                 ((Ascii (true, false, false, false, false, true, true,
                 false)), (String ((Ascii (true, true, true, false, true,
                 true, true, false)), (String ((Ascii (true, true, true,
                 true, true, false, true, false)), (String ((Ascii (false,
                 true, false, false, true, true, true, false)), (String
                 ((Ascii (true, false, true, false, false, true, true,
                 false)), (String ((Ascii (true, true, false, false, false,
                 true, true, false)), (String ((Ascii (true, true, true,
                 true, false, true, true, false)), (String ((Ascii (false,
                 true, false, false, true, true, true, false)), (String
                 ((Ascii (false, false, true, false, false, true, true,
                 false)), EmptyString))))))))))))))))))))))))))))))))))))))))
                 [] input sx_raw None) :: ((mk_case (String ((Ascii (false,
                                             false, false, false, true, true,
                                             true, false)), (String ((Ascii
                                             (true, false, false, false,
                                             false, true, true, false)),
                                             (String ((Ascii (false, true,
                                             false, false, true, true, true,
                                             false)), (String ((Ascii (true,
                                             true, false, false, true, true,
                                             true, false)), (String ((Ascii
                                             (true, false, true, false,
                                             false, true, true, false)),
                                             (String ((Ascii (true, true,
                                             true, true, true, false, true,
                                             false)), (String ((Ascii (false,
                                             false, true, false, true, true,
                                             true, false)), (String ((Ascii
                                             (false, false, true, true,
                                             false, true, true, false)),
                                             (String ((Ascii (true, true,
                                             false, false, true, true, true,
                                             false)), (String ((Ascii (true,
                                             true, true, true, true, false,
                                             true, false)), (String ((Ascii
                                             (true, false, true, false,
                                             false, true, true, false)),
                                             (String ((Ascii (false, true,
                                             true, true, false, true, true,
                                             false)), (String ((Ascii (true,
                                             true, false, false, false, true,
                                             true, false)), (String ((Ascii
                                             (false, true, false, false,
                                             true, true, true, false)),
                                             (String ((Ascii (true, false,
                                             false, true, true, true, true,
                                             false)), (String ((Ascii (false,
                                             false, false, false, true, true,
                                             true, false)), (String ((Ascii
                                             (false, false, true, false,
                                             true, true, true, false)),
                                             (String ((Ascii (true, false,
                                             true, false, false, true, true,
                                             false)), (String ((Ascii (false,
                                             false, true, false, false, true,
                                             true, false)),
                                             EmptyString))))))))))))))))))))))))))))))))))))))
                                             [] input sx_enc None) :: (
              (mk_case (String ((Ascii (false, false, false, false, true,
                true, true, false)), (String ((Ascii (true, false, false,
                false, false, true, true, false)), (String ((Ascii (false,
                true, false, false, true, true, true, false)), (String
                ((Ascii (true, true, false, false, true, true, true, false)),
                (String ((Ascii (true, false, true, false, false, true, true,
                false)), (String ((Ascii (true, true, true, true, true,
                false, true, false)), (String ((Ascii (false, false, true,
                false, true, true, true, false)), (String ((Ascii (false,
                false, true, true, false, true, true, false)), (String
                ((Ascii (true, true, false, false, true, true, true, false)),
                (String ((Ascii (true, true, true, true, true, false, true,
                false)), (String ((Ascii (false, false, false, false, true,
                true, true, false)), (String ((Ascii (false, false, true,
                true, false, true, true, false)), (String ((Ascii (true,
                false, false, false, false, true, true, false)), (String
                ((Ascii (true, false, false, true, false, true, true,
                false)), (String ((Ascii (false, true, true, true, false,
                true, true, false)), (String ((Ascii (false, false, true,
                false, true, true, true, false)), (String ((Ascii (true,
                false, true, false, false, true, true, false)), (String
                ((Ascii (false, false, false, true, true, true, true,
                false)), (String ((Ascii (false, false, true, false, true,
                true, true, false)),
                EmptyString)))))))))))))))))))))))))))))))))))))) [] input
                sx_plain None) :: []))))))))

(** val gcase_handshake : case list g **)

let gcase_handshake =
  gbind ghandshake (fun h ->
    gbind gsuffix (fun suf ->
      gret
        ((mk_case (String ((Ascii (false, false, false, false, true, true,
           true, false)), (String ((Ascii (true, false, false, false, false,
           true, true, false)), (String ((Ascii (false, true, false, false,
           true, true, true, false)), (String ((Ascii (true, true, false,
           false, true, true, true, false)), (String ((Ascii (true, false,
           true, false, false, true, true, false)), (String ((Ascii (true,
           true, true, true, true, false, true, false)), (String ((Ascii
           (false, false, true, false, true, true, true, false)), (String
           ((Ascii (false, false, true, true, false, true, true, false)),
           (String ((Ascii (true, true, false, false, true, true, true,
           false)), (String ((Ascii (true, true, true, true, true, false,
           true, false)), (String ((Ascii (true, false, true, true, false,
           true, true, false)), (String ((Ascii (true, false, true, false,
           false, true, true, false)), (String ((Ascii (true, true, false,
           false, true, true, true, false)), (String ((Ascii (true, true,
           false, false, true, true, true, false)), (String ((Ascii (true,
           false, false, false, false, true, true, false)), (String ((Ascii
           (true, true, true, false, false, true, true, false)), (String
           ((Ascii (true, false, true, false, false, true, true, false)),
           (String ((Ascii (true, true, true, true, true, false, true,
           false)), (String ((Ascii (false, false, false, true, false, true,
           true, false)), (String ((Ascii (true, false, false, false, false,
           true, true, false)), (String ((Ascii (false, true, true, true,
           false, true, true, false)), (String ((Ascii (false, false, true,
           false, false, true, true, false)), (String ((Ascii (true, true,
           false, false, true, true, true, false)), (String ((Ascii (false,
           false, false, true, false, true, true, false)), (String ((Ascii
           (true, false, false, false, false, true, true, false)), (String
           ((Ascii (true, true, false, true, false, true, true, false)),
           (String ((Ascii (true, false, true, false, false, true, true,
           false)),
           EmptyString))))))))))))))))))))))))))))))))))))))))))))))))))))))
           [] (app (enc_handshake h) suf) sx_msg (Some (suf, (MHandshake h)))) :: [])))

(** val gmany : nat -> case list g -> case list g **)

let rec gmany n0 g0 =
  match n0 with
  | O -> gret []
  | S n' -> gbind g0 (fun l -> gbind (gmany n' g0) (fun r -> gret (app l r)))

(** val families_tls : (string * case list g) list **)

let families_tls =
  ((String ((Ascii (false, true, false, false, true, true, true, false)),
    (String ((Ascii (true, false, true, false, false, true, true, false)),
    (String ((Ascii (true, true, false, false, false, true, true, false)),
    (String ((Ascii (true, true, true, true, false, true, true, false)),
    (String ((Ascii (false, true, false, false, true, true, true, false)),
    (String ((Ascii (false, false, true, false, false, true, true, false)),
    EmptyString)))))))))))), gcase_record) :: (((String ((Ascii (true, true,
    true, true, false, true, true, false)), (String ((Ascii (false, false,
    false, false, true, true, true, false)), (String ((Ascii (true, false,
    false, false, false, true, true, false)), (String ((Ascii (true, false,
    false, false, true, true, true, false)), (String ((Ascii (true, false,
    true, false, true, true, true, false)), (String ((Ascii (true, false,
    true, false, false, true, true, false)), EmptyString)))))))))))),
    gcase_opaque) :: (((String ((Ascii (false, false, true, false, true,
    true, true, false)), (String ((Ascii (true, true, true, true, false,
    true, true, false)), (String ((Ascii (true, true, true, true, false,
    true, true, false)), (String ((Ascii (false, false, true, true, false,
    true, true, false)), (String ((Ascii (true, false, false, false, false,
    true, true, false)), (String ((Ascii (false, true, false, false, true,
    true, true, false)), (String ((Ascii (true, true, true, false, false,
    true, true, false)), (String ((Ascii (true, false, true, false, false,
    true, true, false)), EmptyString)))))))))))))))),
    gcase_toolarge) :: (((String ((Ascii (false, false, false, true, false,
    true, true, false)), (String ((Ascii (true, false, false, false, false,
    true, true, false)), (String ((Ascii (false, true, true, true, false,
    true, true, false)), (String ((Ascii (false, false, true, false, false,
    true, true, false)), (String ((Ascii (true, true, false, false, true,
    true, true, false)), (String ((Ascii (false, false, false, true, false,
    true, true, false)), (String ((Ascii (true, false, false, false, false,
    true, true, false)), (String ((Ascii (true, true, false, true, false,
    true, true, false)), (String ((Ascii (true, false, true, false, false,
    true, true, false)), EmptyString)))))))))))))))))),
    gcase_handshake) :: [])))

(** val all_families : (string * case list g) list **)

let all_families =
  families_tls

(** val find_family :
    byte list -> (string * case list g) list -> case list g option **)

let rec find_family name = function
| [] -> None
| p0 :: t ->
  let (n0, g0) = p0 in
  if beq_bytes name (str n0) then Some g0 else find_family name t

(** val gen_lines : byte list -> n -> n -> byte list list **)

let gen_lines family seed n0 =
  match find_family family all_families with
  | Some g0 ->
    let (cases, _) = gmany (N.to_nat n0) g0 (lcg (N.add seed (Npos XH))) in
    map (fun c0 -> app (fst c0) (X09 :: (snd c0))) cases
  | None -> []

(** val family_names : byte list list **)

let family_names =
  map (fun e0 -> str (fst e0)) all_families
